fn main() {
    let v = vec![1, 2, 3];
    let ys = incan_stdlib::collections::list_slice(&v, Some(2), None, Some(i64::MAX));
    println!("[1,2,3][2::MAX] = {:?} (python: [3])", ys);
    let s = incan_core::strings::str_slice("abc", Some(2), None, Some(i64::MAX));
    println!("'abc'[2::MAX] = {:?} (python: 'c')", s);
}
