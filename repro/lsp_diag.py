#!/usr/bin/env python3
"""Open one file in the real `incan-lsp` (stdio) and print the diagnostics it publishes for it.
usage: lsp_diag.py <path to incan-lsp> <file.incn>"""
import json, os, select, subprocess, sys, time

lsp, path = sys.argv[1], os.path.abspath(sys.argv[2])
uri = "file://" + path
p = subprocess.Popen([lsp], stdin=subprocess.PIPE, stdout=subprocess.PIPE, stderr=subprocess.DEVNULL, bufsize=0)
buf = b""


def frame(m):
    b = json.dumps(m).encode()
    return b"Content-Length: %d\r\n\r\n" % len(b) + b


def recv(timeout=5.0):
    global buf
    end = time.time() + timeout
    while True:
        i = buf.find(b"\r\n\r\n")
        if i >= 0:
            n = int([l for l in buf[:i].split(b"\r\n") if l.lower().startswith(b"content-length")][0].split(b":")[1])
            if len(buf) >= i + 4 + n:
                body = buf[i + 4:i + 4 + n]
                buf = buf[i + 4 + n:]
                return json.loads(body)
        r, _, _ = select.select([p.stdout], [], [], max(0, end - time.time()))
        if not r:
            return None
        buf += os.read(p.stdout.fileno(), 65536)


def send(m):
    p.stdin.write(frame(m))
    p.stdin.flush()


send({"jsonrpc": "2.0", "id": 1, "method": "initialize", "params": {"capabilities": {}}})
while True:
    m = recv()
    if m is None or m.get("id") == 1:
        break
send({"jsonrpc": "2.0", "method": "initialized", "params": {}})
send({"jsonrpc": "2.0", "method": "textDocument/didOpen",
      "params": {"textDocument": {"uri": uri, "languageId": "incan", "version": 1, "text": open(path).read()}}})
last = None
end = time.time() + 4
while time.time() < end:
    m = recv(1.0)
    if m is None:
        if last is not None:
            break
        continue
    if m.get("method") == "textDocument/publishDiagnostics" and m["params"]["uri"] == uri:
        last = m["params"]
p.stdin.close()
p.terminate()
if last is None:
    print("LSP: no diagnostics published")
else:
    print("LSP: %d diagnostic(s)" % len(last["diagnostics"]))
    for d in last["diagnostics"]:
        print("   ", d["message"].split("\n")[0])
