#!/bin/bash
# Run the repository's own test suite on /repo's working tree (fallback form of the baseline command) and summarise.
cd /repo || exit 2
LOG=${1:-/verif/.cache/repo_tests.log}
mkdir -p "$(dirname "$LOG")"
CARGO_NET_OFFLINE=true cargo test --workspace --no-fail-fast --offline >"$LOG" 2>&1
rc=$?
ok=$(grep -c '^test result: ok' "$LOG"); bad=$(grep -c '^test result: FAILED' "$LOG")
passed=$(grep '^test result:' "$LOG" | sed -E 's/.* ([0-9]+) passed.*/\1/' | paste -sd+ | bc)
failed=$(grep '^test result:' "$LOG" | sed -E 's/.* ([0-9]+) failed.*/\1/' | paste -sd+ | bc)
echo "rc=$rc suites_ok=$ok suites_failed=$bad tests_passed=$passed tests_failed=$failed"
grep -E '^test .* FAILED|^---- .* ----' "$LOG" | head -20
exit $rc
