#!/bin/bash
# Regenerate MIR facts for /repo's current working tree.
# usage: extract.sh <config> <outdir> <nonce>
#   config: default   -> cargo check --workspace
#           stdlib_json -> -p incan_stdlib --features json
#           stdlib_web  -> -p incan_stdlib --features json,web
set -u
CONFIG="$1"; OUT="$2"; NONCE="$3"
VERIF="$(cd "$(dirname "$0")/.." && pwd)"
REPO="${VERIF_REPO:-/repo}"
DRV="$VERIF/tools/factdrv/target/release/factdrv"
TARGET="$VERIF/.cache/target-$CONFIG"
# (re)build the driver when its source is newer than the binary
if [ ! -x "$DRV" ] || [ "$VERIF/tools/factdrv/src/main.rs" -nt "$DRV" ]; then
  (cd "$VERIF/tools/factdrv" && CARGO_NET_OFFLINE=true cargo +nightly build --release --offline >/dev/null 2>&1) || { echo "factdrv build failed" >&2; exit 2; }
fi
mkdir -p "$OUT" "$TARGET"
# one extraction at a time per target directory: the fingerprint removal below and cargo's own build must not
# interleave with another extraction (checks may be started concurrently, also from different cache namespaces)
exec 9>"$VERIF/.cache/target-$CONFIG.lock"
flock 9
rm -f "$OUT"/*.jsonl
# cargo's freshness cache would skip the wrapper: drop the workspace members' fingerprints and metadata.
for m in incan incan_core incan_syntax incan_stdlib incan_derive incan-lsp generate_lang_reference; do
  rm -rf "$TARGET"/debug/.fingerprint/${m}-* 2>/dev/null
done
case "$CONFIG" in
  default) ARGS="--workspace" ;;
  stdlib_json) ARGS="-p incan_stdlib --features json" ;;
  stdlib_web) ARGS="-p incan_stdlib --features json,web" ;;
  *) echo "unknown config $CONFIG" >&2; exit 2 ;;
esac
SYSROOT="$(rustc +nightly --print sysroot)"
cd "$REPO" || exit 2
LD_LIBRARY_PATH="$SYSROOT/lib" \
RUSTFLAGS="-Zmir-opt-level=0 -Coverflow-checks=off -Awarnings" \
RUSTC_WORKSPACE_WRAPPER="$DRV" \
CARGO_TARGET_DIR="$TARGET" \
FACTDRV_OUT="$OUT" FACTDRV_NONCE="$NONCE" \
CARGO_NET_OFFLINE=true \
cargo +nightly check --offline $ARGS > "$OUT/cargo.log" 2>&1
RC=$?
if [ $RC -ne 0 ]; then
  echo "cargo check failed (rc=$RC); see $OUT/cargo.log" >&2
  tail -30 "$OUT/cargo.log" >&2
  exit 2
fi
exit 0
