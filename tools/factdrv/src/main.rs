//! factdrv — MIR fact extractor for the static checks in /verif.
//!
//! Injected with RUSTC_WORKSPACE_WRAPPER under `cargo +nightly check`. For every workspace crate it
//! writes one JSONL file `<FACTDRV_OUT>/<crate>-<stable id>.jsonl` (one write per rustc process):
//!   {"k":"crate", ...}   header with nonce
//!   {"k":"adt", ...}     every local struct / enum with variants, fields, field types
//!   {"k":"impl", ...}    every local impl with trait ref, self type, associated types
//!   {"k":"mod", ...}     module children (incl. re-exports) with visibility
//!   {"k":"kw", ...}      rustc's keyword table (once per crate; cheap)
//!   {"k":"fn", ...}      every body owner: locals, blocks, statements, terminators (from mir_built)
//!   {"k":"eqop", ...}    HIR binary expressions whose two operands are the same source text (no calls, not from a macro)
#![feature(rustc_private)]
#![allow(clippy::all)]

extern crate rustc_abi;
extern crate rustc_driver;
extern crate rustc_hir;
extern crate rustc_interface;
extern crate rustc_middle;
extern crate rustc_span;

use rustc_driver::{Callbacks, Compilation};
use rustc_hir::def::DefKind;
use rustc_hir::def_id::{DefId, LocalDefId};
use rustc_interface::interface::Compiler;
use rustc_middle::mir::{self, Body, Operand, Place, ProjectionElem, Rvalue, StatementKind, TerminatorKind};
use rustc_middle::ty::print::{with_no_trimmed_paths, with_no_visible_paths, with_resolve_crate_name, PrintTraitRefExt};
use rustc_middle::ty::{self, Instance, Ty, TyCtxt, TypingEnv};
use rustc_span::Span;
use std::fmt::Write as _;

fn js(s: &str) -> String {
    let mut o = String::with_capacity(s.len() + 2);
    o.push('"');
    for c in s.chars() {
        match c {
            '"' => o.push_str("\\\""),
            '\\' => o.push_str("\\\\"),
            '\n' => o.push_str("\\n"),
            '\r' => o.push_str("\\r"),
            '\t' => o.push_str("\\t"),
            c if (c as u32) < 0x20 => {
                let _ = write!(o, "\\u{:04x}", c as u32);
            }
            c => o.push(c),
        }
    }
    o.push('"');
    o
}

fn jlist(items: &[String]) -> String {
    let mut o = String::from("[");
    for (i, it) in items.iter().enumerate() {
        if i > 0 {
            o.push(',');
        }
        o.push_str(it);
    }
    o.push(']');
    o
}

struct Cx<'tcx> {
    tcx: TyCtxt<'tcx>,
}

impl<'tcx> Cx<'tcx> {
    fn ty_s(&self, t: Ty<'tcx>) -> String {
        format!("{}", t)
    }

    fn path(&self, d: DefId) -> String {
        self.tcx.def_path_str(d)
    }

    /// ADT def paths mentioned anywhere inside a type.
    fn adts_in(&self, t: Ty<'tcx>) -> Vec<String> {
        let mut v = Vec::new();
        for ga in t.walk() {
            if let Some(t) = ga.as_type() {
                if let ty::Adt(adt, _) = t.kind() {
                    let p = self.path(adt.did());
                    if !v.contains(&p) {
                        v.push(p);
                    }
                }
            }
        }
        v
    }

    fn span_info(&self, sp: Span) -> (String, usize, Vec<String>) {
        let sm = self.tcx.sess.source_map();
        let cs = sp.source_callsite();
        let loc = sm.lookup_char_pos(cs.lo());
        let file = match &loc.file.name {
            rustc_span::FileName::Real(r) => match r.local_path() {
                Some(p) => p.to_string_lossy().to_string(),
                None => format!("{:?}", loc.file.name),
            },
            other => format!("{:?}", other),
        };
        let mut exp = Vec::new();
        for e in sp.macro_backtrace() {
            match e.kind {
                rustc_span::ExpnKind::Macro(_, name) => exp.push(name.to_string()),
                rustc_span::ExpnKind::Desugaring(d) => exp.push(format!("desugar:{:?}", d)),
                rustc_span::ExpnKind::AstPass(p) => exp.push(format!("astpass:{:?}", p)),
                rustc_span::ExpnKind::Root => {}
            }
        }
        (file, loc.line, exp)
    }

    fn span_js(&self, sp: Span) -> String {
        let (_f, line, exp) = self.span_info(sp);
        if exp.is_empty() {
            format!("\"ln\":{}", line)
        } else {
            let e: Vec<String> = exp.iter().map(|s| js(s)).collect();
            format!("\"ln\":{},\"exp\":{}", line, jlist(&e))
        }
    }

    fn place_js(&self, body: &Body<'tcx>, p: &Place<'tcx>) -> String {
        let tcx = self.tcx;
        let mut pty = mir::PlaceTy::from_ty(body.local_decls[p.local].ty);
        let mut parts: Vec<String> = Vec::new();
        for elem in p.projection.iter() {
            let s = match elem {
                ProjectionElem::Deref => "[\"deref\"]".to_string(),
                ProjectionElem::Field(f, fty) => match pty.ty.kind() {
                    ty::Adt(adt, _) => {
                        let vidx = pty.variant_index.unwrap_or(rustc_abi::FIRST_VARIANT);
                        let v = adt.variant(vidx);
                        let fname = v.fields[f].name.to_string();
                        format!(
                            "[\"f\",{},{},{},{}]",
                            js(&self.path(adt.did())),
                            js(&v.name.to_string()),
                            js(&fname),
                            js(&self.ty_s(fty))
                        )
                    }
                    ty::Tuple(_) => format!("[\"t\",{}]", f.as_usize()),
                    ty::Closure(..) | ty::Coroutine(..) | ty::CoroutineClosure(..) => {
                        format!("[\"up\",{}]", f.as_usize())
                    }
                    _ => format!("[\"f?\",{}]", f.as_usize()),
                },
                ProjectionElem::Index(l) => format!("[\"idx\",{}]", l.as_usize()),
                ProjectionElem::ConstantIndex { offset, min_length, from_end } => {
                    format!("[\"cidx\",{},{},{}]", offset, min_length, from_end)
                }
                ProjectionElem::Subslice { from, to, from_end } => format!("[\"sub\",{},{},{}]", from, to, from_end),
                ProjectionElem::Downcast(name, vidx) => {
                    let n = name.map(|s| s.to_string()).unwrap_or_default();
                    let adt = match pty.ty.kind() {
                        ty::Adt(a, _) => self.path(a.did()),
                        _ => String::new(),
                    };
                    format!("[\"dc\",{},{},{}]", js(&adt), js(&n), vidx.as_usize())
                }
                ProjectionElem::OpaqueCast(_) => "[\"opq\"]".to_string(),
                ProjectionElem::UnwrapUnsafeBinder(_) => "[\"unb\"]".to_string(),
            };
            parts.push(s);
            pty = pty.projection_ty(tcx, elem);
        }
        format!("{{\"l\":{},\"p\":{}}}", p.local.as_usize(), jlist(&parts))
    }

    fn const_js(&self, c: &mir::ConstOperand<'tcx>) -> String {
        let t = c.const_.ty();
        let mut extra = String::new();
        if let ty::FnDef(did, args) = *t.kind() {
            let _ = write!(extra, ",\"fn\":{},\"fni\":{}", js(&self.path(did)), js(&self.tcx.def_path_str_with_args(did, args)));
        }
        format!("{{\"c\":{},\"ty\":{}{}}}", js(&format!("{}", c.const_)), js(&self.ty_s(t)), extra)
    }

    fn op_js(&self, body: &Body<'tcx>, o: &Operand<'tcx>) -> String {
        match o {
            Operand::Copy(p) => format!("{{\"cp\":{}}}", self.place_js(body, p)),
            Operand::Move(p) => format!("{{\"mv\":{}}}", self.place_js(body, p)),
            Operand::Constant(c) => self.const_js(c),
            _ => "{\"rt\":1}".to_string(),
        }
    }

    fn rvalue_js(&self, body: &Body<'tcx>, rv: &Rvalue<'tcx>) -> String {
        match rv {
            Rvalue::Use(o, _) => format!("{{\"r\":\"use\",\"o\":{}}}", self.op_js(body, o)),
            Rvalue::Repeat(o, _) => format!("{{\"r\":\"repeat\",\"o\":{}}}", self.op_js(body, o)),
            Rvalue::Ref(_, bk, p) => {
                let k = match bk {
                    mir::BorrowKind::Shared => "shared",
                    mir::BorrowKind::Fake(_) => "fake",
                    mir::BorrowKind::Mut { .. } => "mut",
                };
                format!("{{\"r\":\"ref\",\"bk\":\"{}\",\"p\":{}}}", k, self.place_js(body, p))
            }
            Rvalue::ThreadLocalRef(d) => format!("{{\"r\":\"tls\",\"d\":{}}}", js(&self.path(*d))),
            Rvalue::RawPtr(_, p) => format!("{{\"r\":\"rawptr\",\"p\":{}}}", self.place_js(body, p)),
            Rvalue::Cast(k, o, t) => {
                format!(
                    "{{\"r\":\"cast\",\"ck\":{},\"o\":{},\"ty\":{}}}",
                    js(&format!("{:?}", k)),
                    self.op_js(body, o),
                    js(&self.ty_s(*t))
                )
            }
            Rvalue::BinaryOp(op, ab) => format!(
                "{{\"r\":\"bin\",\"op\":\"{:?}\",\"a\":{},\"b\":{}}}",
                op,
                self.op_js(body, &ab.0),
                self.op_js(body, &ab.1)
            ),
            Rvalue::UnaryOp(op, o) => format!("{{\"r\":\"un\",\"op\":\"{:?}\",\"o\":{}}}", op, self.op_js(body, o)),
            Rvalue::Discriminant(p) => {
                let pt = p.ty(&body.local_decls, self.tcx).ty;
                let mut adt_s = String::new();
                let mut vars: Vec<String> = Vec::new();
                if let ty::Adt(adt, _) = pt.kind() {
                    adt_s = self.path(adt.did());
                    if adt.is_enum() {
                        for (vidx, discr) in adt.discriminants(self.tcx) {
                            vars.push(format!("[{},{}]", js(&discr.val.to_string()), js(&adt.variant(vidx).name.to_string())));
                        }
                    }
                }
                format!(
                    "{{\"r\":\"discr\",\"p\":{},\"adt\":{},\"vars\":{}}}",
                    self.place_js(body, p),
                    js(&adt_s),
                    jlist(&vars)
                )
            }
            Rvalue::Aggregate(kind, ops) => {
                let opsj: Vec<String> = ops.iter().map(|o| self.op_js(body, o)).collect();
                let k = match &**kind {
                    mir::AggregateKind::Array(_) => "\"ak\":\"array\"".to_string(),
                    mir::AggregateKind::Tuple => "\"ak\":\"tuple\"".to_string(),
                    mir::AggregateKind::Adt(did, vidx, _, _, _) => {
                        let adt = self.tcx.adt_def(*did);
                        let v = adt.variant(*vidx);
                        let fnames: Vec<String> = v.fields.iter().map(|f| js(&f.name.to_string())).collect();
                        format!(
                            "\"ak\":\"adt\",\"adt\":{},\"variant\":{},\"fields\":{}",
                            js(&self.path(*did)),
                            js(&v.name.to_string()),
                            jlist(&fnames)
                        )
                    }
                    mir::AggregateKind::Closure(did, _) => format!("\"ak\":\"closure\",\"def\":{}", js(&self.path(*did))),
                    mir::AggregateKind::Coroutine(did, _) => {
                        format!("\"ak\":\"coroutine\",\"def\":{}", js(&self.path(*did)))
                    }
                    mir::AggregateKind::CoroutineClosure(did, _) => {
                        format!("\"ak\":\"coroutine_closure\",\"def\":{}", js(&self.path(*did)))
                    }
                    mir::AggregateKind::RawPtr(..) => "\"ak\":\"rawptr\"".to_string(),
                };
                format!("{{\"r\":\"agg\",{},\"ops\":{}}}", k, jlist(&opsj))
            }
            Rvalue::CopyForDeref(p) => format!("{{\"r\":\"cfd\",\"p\":{}}}", self.place_js(body, p)),
            Rvalue::WrapUnsafeBinder(o, _) => format!("{{\"r\":\"wub\",\"o\":{}}}", self.op_js(body, o)),
        }
    }

    fn call_js(&self, body: &Body<'tcx>, owner: LocalDefId, func: &Operand<'tcx>) -> String {
        let tcx = self.tcx;
        if let Some((did, args)) = func.const_fn_def() {
            let path = self.path(did);
            let inst_s = tcx.def_path_str_with_args(did, args);
            let mut extra = String::new();
            // trait method?
            if let Some(tr) = tcx.trait_of_assoc(did) {
                let _ = write!(extra, ",\"trait\":{}", js(&self.path(tr)));
                if args.len() > 0 {
                    if let Some(t) = args[0].as_type() {
                        let _ = write!(extra, ",\"self\":{}", js(&self.ty_s(t)));
                    }
                }
            } else if let Some(imp) = tcx.impl_of_assoc(did) {
                let st = tcx.type_of(imp).instantiate(tcx, args).skip_norm_wip();
                let _ = write!(extra, ",\"self\":{}", js(&self.ty_s(st)));
            }
            let ga: Vec<String> = args.iter().map(|a| js(&format!("{}", a))).collect();
            let _ = write!(extra, ",\"ga\":{}", jlist(&ga));
            // resolution
            let dk = tcx.def_kind(did);
            if matches!(dk, DefKind::Fn | DefKind::AssocFn) {
                let env = TypingEnv::post_analysis(tcx, owner);
                let has_infer = args.iter().any(|a| format!("{:?}", a).contains("?"));
                if !has_infer {
                    if let Ok(Some(inst)) = Instance::try_resolve(tcx, env, did, args) {
                        let rd = inst.def_id();
                        let kind = match inst.def {
                            ty::InstanceKind::Item(_) => "item",
                            ty::InstanceKind::Virtual(..) => "virtual",
                            ty::InstanceKind::Intrinsic(_) => "intrinsic",
                            ty::InstanceKind::ClosureOnceShim { .. } => "closure_once",
                            ty::InstanceKind::FnPtrShim(..) => "fnptr_shim",
                            ty::InstanceKind::CloneShim(..) => "clone_shim",
                            ty::InstanceKind::DropGlue(..) => "drop_glue",
                            _ => "other",
                        };
                        let _ = write!(extra, ",\"res\":{},\"rk\":\"{}\"", js(&self.path(rd)), kind);
                        if rd.is_local() {
                            let _ = write!(extra, ",\"rlocal\":true");
                        }
                    }
                }
            }
            let krate = tcx.crate_name(did.krate).to_string();
            format!("{{\"path\":{},\"inst\":{},\"crate\":{}{}}}", js(&path), js(&inst_s), js(&krate), extra)
        } else {
            let t = func.ty(&body.local_decls, tcx);
            format!("{{\"indirect\":{},\"ty\":{}}}", self.op_js(body, func), js(&self.ty_s(t)))
        }
    }

    fn dump_body(&self, out: &mut String, def: LocalDefId, body: &Body<'tcx>) {
        let tcx = self.tcx;
        let did = def.to_def_id();
        let dk = tcx.def_kind(did);
        let (file, line, _) = self.span_info(body.span);
        let sm = tcx.sess.source_map();
        let end_line = sm.lookup_char_pos(body.span.hi()).line;
        let vis = if matches!(dk, DefKind::Fn | DefKind::AssocFn) {
            if tcx.visibility(did).is_public() { "pub" } else { "restricted" }
        } else {
            "n/a"
        };
        let is_coroutine = body.coroutine.is_some();
        let mut locals: Vec<String> = Vec::new();
        for (l, d) in body.local_decls.iter_enumerated() {
            let user = if d.is_user_variable() { ",\"user\":true" } else { "" };
            locals.push(format!("{{\"i\":{},\"ty\":{}{}}}", l.as_usize(), js(&self.ty_s(d.ty)), user));
        }
        let mut dbg: Vec<String> = Vec::new();
        for v in body.var_debug_info.iter() {
            if let mir::VarDebugInfoContents::Place(p) = &v.value {
                dbg.push(format!("[{},{}]", js(&v.name.to_string()), self.place_js(body, p)));
            }
        }
        let mut blocks: Vec<String> = Vec::new();
        for (_bb, data) in body.basic_blocks.iter_enumerated() {
            let mut stmts: Vec<String> = Vec::new();
            for st in data.statements.iter() {
                let sp = self.span_js(st.source_info.span);
                match &st.kind {
                    StatementKind::Assign(b) => {
                        let (p, rv) = &**b;
                        stmts.push(format!(
                            "{{\"s\":\"assign\",\"d\":{},\"rv\":{},{}}}",
                            self.place_js(body, p),
                            self.rvalue_js(body, rv),
                            sp
                        ));
                    }
                    StatementKind::FakeRead(b) => {
                        stmts.push(format!("{{\"s\":\"fakeread\",\"p\":{},{}}}", self.place_js(body, &b.1), sp));
                    }
                    StatementKind::PlaceMention(p) => {
                        stmts.push(format!("{{\"s\":\"mention\",\"p\":{},{}}}", self.place_js(body, p), sp));
                    }
                    StatementKind::SetDiscriminant { place, variant_index } => {
                        stmts.push(format!(
                            "{{\"s\":\"setdiscr\",\"p\":{},\"v\":{},{}}}",
                            self.place_js(body, place),
                            variant_index.as_usize(),
                            sp
                        ));
                    }
                    StatementKind::StorageLive(l) => stmts.push(format!("{{\"s\":\"live\",\"l\":{}}}", l.as_usize())),
                    StatementKind::StorageDead(l) => stmts.push(format!("{{\"s\":\"dead\",\"l\":{}}}", l.as_usize())),
                    _ => {}
                }
            }
            let term = data.terminator();
            let sp = self.span_js(term.source_info.span);
            let cleanup = if data.is_cleanup { ",\"cleanup\":true" } else { "" };
            let t = match &term.kind {
                TerminatorKind::Goto { target } => format!("{{\"t\":\"goto\",\"to\":{},{}}}", target.as_usize(), sp),
                TerminatorKind::SwitchInt { discr, targets } => {
                    let mut ts: Vec<String> = Vec::new();
                    for (v, bb) in targets.iter() {
                        ts.push(format!("[{},{}]", js(&v.to_string()), bb.as_usize()));
                    }
                    format!(
                        "{{\"t\":\"switch\",\"on\":{},\"ty\":{},\"targets\":{},\"otherwise\":{},{}}}",
                        self.op_js(body, discr),
                        js(&self.ty_s(discr.ty(&body.local_decls, tcx))),
                        jlist(&ts),
                        targets.otherwise().as_usize(),
                        sp
                    )
                }
                TerminatorKind::UnwindResume => "{\"t\":\"resume\"}".to_string(),
                TerminatorKind::UnwindTerminate(_) => "{\"t\":\"terminate\"}".to_string(),
                TerminatorKind::Return => format!("{{\"t\":\"return\",{}}}", sp),
                TerminatorKind::Unreachable => "{\"t\":\"unreachable\"}".to_string(),
                TerminatorKind::Drop { place, target, unwind, .. } => {
                    let uw = match unwind {
                        mir::UnwindAction::Cleanup(b) => format!(",\"unwind\":{}", b.as_usize()),
                        _ => String::new(),
                    };
                    format!(
                        "{{\"t\":\"drop\",\"p\":{},\"to\":{}{},{}}}",
                        self.place_js(body, place),
                        target.as_usize(),
                        uw,
                        sp
                    )
                }
                TerminatorKind::Call { func, args, destination, target, unwind, fn_span, .. } => {
                    let a: Vec<String> = args.iter().map(|a| self.op_js(body, &a.node)).collect();
                    let tg = match target {
                        Some(b) => format!("{}", b.as_usize()),
                        None => "null".to_string(),
                    };
                    let uw = match unwind {
                        mir::UnwindAction::Cleanup(b) => format!(",\"unwind\":{}", b.as_usize()),
                        _ => String::new(),
                    };
                    let fsp = self.span_js(*fn_span);
                    format!(
                        "{{\"t\":\"call\",\"f\":{},\"args\":{},\"d\":{},\"to\":{}{},{}}}",
                        self.call_js(body, def, func),
                        jlist(&a),
                        self.place_js(body, destination),
                        tg,
                        uw,
                        fsp
                    )
                }
                TerminatorKind::TailCall { func, args, .. } => {
                    let a: Vec<String> = args.iter().map(|a| self.op_js(body, &a.node)).collect();
                    format!("{{\"t\":\"tailcall\",\"f\":{},\"args\":{},{}}}", self.call_js(body, def, func), jlist(&a), sp)
                }
                TerminatorKind::Assert { cond, expected, msg, target, .. } => {
                    let mk = match &**msg {
                        mir::AssertKind::BoundsCheck { .. } => "bounds".to_string(),
                        mir::AssertKind::Overflow(op, ..) => format!("overflow:{:?}", op),
                        mir::AssertKind::OverflowNeg(_) => "overflow_neg".to_string(),
                        mir::AssertKind::DivisionByZero(_) => "div_zero".to_string(),
                        mir::AssertKind::RemainderByZero(_) => "rem_zero".to_string(),
                        mir::AssertKind::ResumedAfterReturn(_) => "resumed_after_return".to_string(),
                        mir::AssertKind::ResumedAfterPanic(_) => "resumed_after_panic".to_string(),
                        _ => "other".to_string(),
                    };
                    let extra = match &**msg {
                        mir::AssertKind::BoundsCheck { len, index } => {
                            format!(",\"len\":{},\"index\":{}", self.op_js(body, len), self.op_js(body, index))
                        }
                        _ => String::new(),
                    };
                    format!(
                        "{{\"t\":\"assert\",\"cond\":{},\"expected\":{},\"msg\":{},\"to\":{}{},{}}}",
                        self.op_js(body, cond),
                        expected,
                        js(&mk),
                        target.as_usize(),
                        extra,
                        sp
                    )
                }
                TerminatorKind::Yield { value, resume, drop, .. } => {
                    let d = match drop {
                        Some(b) => format!("{}", b.as_usize()),
                        None => "null".to_string(),
                    };
                    format!(
                        "{{\"t\":\"yield\",\"v\":{},\"to\":{},\"drop\":{},{}}}",
                        self.op_js(body, value),
                        resume.as_usize(),
                        d,
                        sp
                    )
                }
                TerminatorKind::CoroutineDrop => "{\"t\":\"coroutine_drop\"}".to_string(),
                TerminatorKind::FalseEdge { real_target, imaginary_target } => {
                    format!("{{\"t\":\"falseedge\",\"to\":{},\"imag\":{}}}", real_target.as_usize(), imaginary_target.as_usize())
                }
                TerminatorKind::FalseUnwind { real_target, .. } => {
                    format!("{{\"t\":\"falseunwind\",\"to\":{}}}", real_target.as_usize())
                }
                TerminatorKind::InlineAsm { .. } => "{\"t\":\"asm\"}".to_string(),
            };
            blocks.push(format!("{{\"st\":{},\"term\":{}{}}}", jlist(&stmts), t, cleanup));
        }
        let _ = writeln!(
            out,
            "{{\"k\":\"fn\",\"path\":{},\"dk\":{},\"file\":{},\"line\":{},\"end\":{},\"vis\":\"{}\",\"coroutine\":{},\"argc\":{},\"locals\":{},\"dbg\":{},\"blocks\":{}}}",
            js(&self.path(did)),
            js(&format!("{:?}", dk)),
            js(&file),
            line,
            end_line,
            vis,
            is_coroutine,
            body.arg_count,
            jlist(&locals),
            jlist(&dbg),
            jlist(&blocks)
        );
    }

    fn dump_items(&self, out: &mut String) {
        let tcx = self.tcx;
        for ldid in tcx.hir_crate_items(()).definitions() {
            let did = ldid.to_def_id();
            match tcx.def_kind(did) {
                DefKind::Struct | DefKind::Enum | DefKind::Union => {
                    let adt = tcx.adt_def(did);
                    let mut vars: Vec<String> = Vec::new();
                    for v in adt.variants().iter() {
                        let mut fields: Vec<String> = Vec::new();
                        for f in v.fields.iter() {
                            let ft = tcx.type_of(f.did).instantiate_identity().skip_norm_wip();
                            let adts: Vec<String> = self.adts_in(ft).iter().map(|s| js(s)).collect();
                            let fvis = if tcx.visibility(f.did).is_public() { "pub" } else { "restricted" };
                            fields.push(format!(
                                "{{\"name\":{},\"ty\":{},\"adts\":{},\"vis\":\"{}\"}}",
                                js(&f.name.to_string()),
                                js(&self.ty_s(ft)),
                                jlist(&adts),
                                fvis
                            ));
                        }
                        vars.push(format!("{{\"name\":{},\"fields\":{}}}", js(&v.name.to_string()), jlist(&fields)));
                    }
                    let (file, line, _) = self.span_info(tcx.def_span(did));
                    let vis = if tcx.visibility(did).is_public() { "pub" } else { "restricted" };
                    let _ = writeln!(
                        out,
                        "{{\"k\":\"adt\",\"path\":{},\"enum\":{},\"variants\":{},\"file\":{},\"line\":{},\"vis\":\"{}\"}}",
                        js(&self.path(did)),
                        adt.is_enum(),
                        jlist(&vars),
                        js(&file),
                        line,
                        vis
                    );
                }
                DefKind::Impl { of_trait } => {
                    let self_ty = tcx.type_of(did).instantiate_identity().skip_norm_wip();
                    let tr = if of_trait {
                        let r = tcx.impl_trait_ref(did).instantiate_identity().skip_norm_wip();
                        js(&format!("{}", r.print_only_trait_path()))
                    } else {
                        "null".to_string()
                    };
                    let mut assoc: Vec<String> = Vec::new();
                    for it in tcx.associated_items(did).in_definition_order() {
                        let kind = match it.kind {
                            ty::AssocKind::Fn { .. } => "fn",
                            ty::AssocKind::Type { .. } => "type",
                            ty::AssocKind::Const { .. } => "const",
                        };
                        let mut extra = String::new();
                        if kind == "type" {
                            let t = tcx.type_of(it.def_id).instantiate_identity().skip_norm_wip();
                            let _ = write!(extra, ",\"ty\":{}", js(&self.ty_s(t)));
                        }
                        assoc.push(format!("{{\"name\":{},\"kind\":\"{}\",\"path\":{}{}}}", js(&it.name().to_string()), kind, js(&self.path(it.def_id)), extra));
                    }
                    let _ = writeln!(
                        out,
                        "{{\"k\":\"impl\",\"path\":{},\"trait\":{},\"self\":{},\"items\":{}}}",
                        js(&self.path(did)),
                        tr,
                        js(&self.ty_s(self_ty)),
                        jlist(&assoc)
                    );
                }
                DefKind::Fn | DefKind::AssocFn | DefKind::Const { .. } | DefKind::Static { .. } | DefKind::Trait | DefKind::TyAlias | DefKind::Mod => {
                    let vis = if tcx.visibility(did).is_public() { "pub" } else { "restricted" };
                    let mut extra = String::new();
                    if matches!(tcx.def_kind(did), DefKind::Fn | DefKind::AssocFn) {
                        let sig = tcx.fn_sig(did).instantiate_identity().skip_norm_wip().skip_binder();
                        let ins: Vec<String> = sig.inputs().iter().map(|t| js(&self.ty_s(*t))).collect();
                        let _ = write!(extra, ",\"inputs\":{},\"output\":{}", jlist(&ins), js(&self.ty_s(sig.output())));
                        let _ = write!(extra, ",\"const\":{}", tcx.is_const_fn(did));
                    }
                    let _ = writeln!(
                        out,
                        "{{\"k\":\"item\",\"path\":{},\"dk\":{},\"vis\":\"{}\"{}}}",
                        js(&self.path(did)),
                        js(&format!("{:?}", tcx.def_kind(did))),
                        vis,
                        extra
                    );
                }
                _ => {}
            }
        }
        // module children (re-exports included)
        let mut mods: Vec<LocalDefId> = vec![rustc_hir::def_id::CRATE_DEF_ID];
        for ldid in tcx.hir_crate_items(()).definitions() {
            if tcx.def_kind(ldid.to_def_id()) == DefKind::Mod {
                mods.push(ldid);
            }
        }
        for m in mods {
            let mut ch: Vec<String> = Vec::new();
            for c in tcx.module_children_local(m).iter() {
                let target = match c.res.opt_def_id() {
                    Some(d) => self.path(d),
                    None => format!("{:?}", c.res),
                };
                let vis = if c.vis.is_public() { "pub" } else { "restricted" };
                ch.push(format!(
                    "{{\"name\":{},\"target\":{},\"vis\":\"{}\",\"reexport\":{}}}",
                    js(&c.ident.name.to_string()),
                    js(&target),
                    vis,
                    !c.reexport_chain.is_empty()
                ));
            }
            let mvis = if tcx.visibility(m.to_def_id()).is_public() { "pub" } else { "restricted" };
            let _ = writeln!(
                out,
                "{{\"k\":\"mod\",\"path\":{},\"vis\":\"{}\",\"children\":{}}}",
                js(&self.path(m.to_def_id())),
                mvis,
                jlist(&ch)
            );
        }
    }

    fn dump_keywords(&self, out: &mut String) {
        use rustc_span::edition::Edition;
        use rustc_span::symbol::Symbol;
        let mut kws: Vec<String> = Vec::new();
        for i in 0..120u32 {
            let s = Symbol::new(i);
            let txt = s.to_string();
            let res2021 = s.is_reserved(|| Edition::Edition2021);
            let res2024 = s.is_reserved(|| Edition::Edition2024);
            if res2021 || res2024 {
                kws.push(format!(
                    "{{\"kw\":{},\"reserved2021\":{},\"reserved2024\":{},\"can_be_raw\":{}}}",
                    js(&txt),
                    res2021,
                    res2024,
                    s.can_be_raw()
                ));
            }
        }
        let _ = writeln!(out, "{{\"k\":\"kw\",\"list\":{}}}", jlist(&kws));
    }
}

struct EqOp<'a, 'tcx> {
    cx: &'a Cx<'tcx>,
    owner: String,
    out: &'a mut String,
    seen: &'a mut usize,
}

impl<'a, 'tcx> rustc_hir::intravisit::Visitor<'tcx> for EqOp<'a, 'tcx> {
    fn visit_expr(&mut self, e: &'tcx rustc_hir::Expr<'tcx>) {
        if let rustc_hir::ExprKind::Binary(op, l, r) = e.kind {
            *self.seen += 1;
            if !e.span.from_expansion() && !l.span.from_expansion() && !r.span.from_expansion() {
                let sm = self.cx.tcx.sess.source_map();
                if let (Ok(a), Ok(b)) = (sm.span_to_snippet(l.span), sm.span_to_snippet(r.span)) {
                    let norm = |s: &str| s.chars().filter(|c| !c.is_whitespace()).collect::<String>();
                    if norm(&a) == norm(&b) && !a.contains('(') && !a.trim().is_empty() {
                        let (file, line, _) = self.cx.span_info(e.span);
                        let _ = writeln!(
                            self.out,
                            "{{\"k\":\"eqop\",\"fn\":{},\"file\":{},\"ln\":{},\"op\":{},\"text\":{}}}",
                            js(&self.owner),
                            js(&file),
                            line,
                            js(op.node.as_str()),
                            js(&a)
                        );
                    }
                }
            }
        }
        rustc_hir::intravisit::walk_expr(self, e);
    }
}

struct Cb;

impl Callbacks for Cb {
    fn after_expansion<'tcx>(&mut self, _c: &Compiler, tcx: TyCtxt<'tcx>) -> Compilation {
        let out_dir = match std::env::var("FACTDRV_OUT") {
            Ok(d) => d,
            Err(_) => return Compilation::Continue,
        };
        let nonce = std::env::var("FACTDRV_NONCE").unwrap_or_default();
        let krate = tcx.crate_name(rustc_hir::def_id::LOCAL_CRATE).to_string();
        let sid = format!("{:x}", tcx.stable_crate_id(rustc_hir::def_id::LOCAL_CRATE).as_u64());
        let ctype = format!("{:?}", tcx.crate_types());
        let mut out = String::new();
        with_no_trimmed_paths!(with_no_visible_paths!(with_resolve_crate_name!({
            let cx = Cx { tcx };
            let _ = writeln!(
                out,
                "{{\"k\":\"crate\",\"name\":{},\"id\":{},\"types\":{},\"nonce\":{}}}",
                js(&krate),
                js(&sid),
                js(&ctype),
                js(&nonce)
            );
            cx.dump_items(&mut out);
            cx.dump_keywords(&mut out);
            // Phase 1: clone every built body before anything can steal it (type_of(opaque) runs borrowck).
            let mut bodies: Vec<(LocalDefId, Body<'tcx>)> = Vec::new();
            for def in tcx.hir_body_owners() {
                let steal = tcx.mir_built(def);
                if steal.is_stolen() {
                    let _ = writeln!(out, "{{\"k\":\"stolen\",\"path\":{}}}", js(&tcx.def_path_str(def.to_def_id())));
                    continue;
                }
                let b = steal.borrow().clone();
                bodies.push((def, b));
            }
            for (def, body) in bodies.iter() {
                cx.dump_body(&mut out, *def, body);
            }
            let mut seen = 0usize;
            for def in tcx.hir_body_owners() {
                if let Some(bid) = tcx.hir_maybe_body_owned_by(def) {
                    let owner = tcx.def_path_str(def.to_def_id());
                    let mut v = EqOp { cx: &cx, owner, out: &mut out, seen: &mut seen };
                    rustc_hir::intravisit::Visitor::visit_expr(&mut v, bid.value);
                }
            }
            let _ = writeln!(out, "{{\"k\":\"eqop_scan\",\"binary\":{}}}", seen);
        })));
        let path = format!("{}/{}-{}.jsonl", out_dir, krate, sid);
        let tmp = format!("{}.tmp{}", path, std::process::id());
        if std::fs::write(&tmp, out.as_bytes()).is_ok() {
            let _ = std::fs::rename(&tmp, &path);
        }
        Compilation::Continue
    }
}

fn main() {
    let mut args: Vec<String> = std::env::args().collect();
    // RUSTC_WORKSPACE_WRAPPER: argv = [wrapper, rustc, args...]
    if args.len() > 1 {
        args.remove(1);
    }
    let mut cb = Cb;
    rustc_driver::run_compiler(&args, &mut cb);
}
