#!/usr/bin/env python3
"""try_patch.py <patch.diff> <ID>...: apply a patch to a scratch copy of /repo and run the named checks there."""
import os, re, shutil, subprocess, sys, tempfile
V = os.path.dirname(os.path.dirname(os.path.abspath(__file__)))
patch = os.path.abspath(sys.argv[1])
ids = sys.argv[2:]
scratch = tempfile.mkdtemp(prefix="incan-verif-try-")
ns = "try-%d" % os.getpid()
try:
    subprocess.check_call(["rsync", "-a", "--exclude", "/target", "--exclude", "/.git", "/repo/", scratch + "/"])
    env = dict(os.environ, VERIF_REPO=scratch, VERIF_CACHE_NS=ns, VERIF_NESTED="1",
               VERIF_EVIDENCE_DIR=os.path.join(V, ".cache", "evidence-" + ns),
               GIT_CEILING_DIRECTORIES=os.path.dirname(scratch))
    ap = subprocess.run(["git", "apply", "--whitespace=nowarn", patch], cwd=scratch, env=env, text=True,
                        stdout=subprocess.PIPE, stderr=subprocess.STDOUT)
    if ap.returncode != 0:
        print("patch does not apply:", ap.stdout[:300])
        sys.exit(2)
    for pid in ids:
        pr = subprocess.run([sys.executable, os.path.join(V, "rules", "run.py"), pid, "--tier", "quick"], cwd=V,
                            env=env, text=True, stdout=subprocess.PIPE, stderr=subprocess.STDOUT)
        for l in pr.stdout.splitlines():
            if re.search(r"^VIOLATION|rule=|^C[0-9]+:|FATAL|Traceback|Error", l):
                print("[%s] %s" % (pid, l))
finally:
    shutil.rmtree(scratch, ignore_errors=True)
    shutil.rmtree(os.path.join(V, ".cache", "facts-" + ns), ignore_errors=True)
    shutil.rmtree(os.path.join(V, ".cache", "evidence-" + ns), ignore_errors=True)
