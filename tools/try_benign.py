#!/usr/bin/env python3
"""try_benign.py <patch.diff> [IDs...]: apply a behaviour-preserving patch to a scratch copy of /repo and run the checks
there. Any VIOLATION is a false alarm to investigate. /repo and the real evidence files are not touched."""
import os, re, shutil, subprocess, sys, tempfile
V = os.path.dirname(os.path.dirname(os.path.abspath(__file__)))
ALL = ["C01", "C02", "C03", "C04", "C05", "C06", "C07", "C08", "C09", "C11", "C12", "C13", "C14", "C15", "C16", "C17",
       "C18", "C20"]
patch = os.path.abspath(sys.argv[1])
ids = sys.argv[2:] or ALL
scratch = tempfile.mkdtemp(prefix="incan-verif-benign-")
try:
    subprocess.check_call(["rsync", "-a", "--exclude", "/target", "--exclude", "/.git", "/repo/", scratch + "/"])
    env = dict(os.environ, VERIF_REPO=scratch, VERIF_CACHE_NS="benign-%d" % os.getpid(), VERIF_NESTED="1",
               VERIF_EVIDENCE_DIR=os.path.join(V, ".cache", "benign-evidence"),
               GIT_CEILING_DIRECTORIES=os.path.dirname(scratch))
    ap = subprocess.run(["git", "apply", "--whitespace=nowarn", patch], cwd=scratch, env=env, text=True,
                        stdout=subprocess.PIPE, stderr=subprocess.STDOUT)
    if ap.returncode != 0:
        print("PATCH-DOES-NOT-APPLY", ap.stdout[:300])
        sys.exit(2)
    bad = 0
    for pid in ids:
        pr = subprocess.run([sys.executable, os.path.join(V, "rules", "run.py"), pid, "--tier", "quick"], cwd=V,
                            env=env, text=True, stdout=subprocess.PIPE, stderr=subprocess.STDOUT)
        lines = [l for l in pr.stdout.splitlines() if re.search(r"rule=|FATAL|Traceback|Error", l)]
        status = "ok" if pr.returncode == 0 else "ALARM rc=%d" % pr.returncode
        print("[%s] %s %s" % (pid, status, pr.stdout.strip().splitlines()[-1][:120] if pr.stdout.strip() else ""))
        if pr.returncode != 0:
            bad += 1
            for l in lines[:8]:
                print("      " + l[:260])
    print("SUMMARY %s: %d of %d checks alarmed" % (os.path.basename(os.path.dirname(patch)), bad, len(ids)))
finally:
    shutil.rmtree(scratch, ignore_errors=True)
    shutil.rmtree(os.path.join(V, ".cache", "facts-benign-%d" % os.getpid()), ignore_errors=True)
