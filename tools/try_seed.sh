#!/bin/bash
# try_seed.sh <patch.diff> <ID> [more IDs]: apply the patch to a SCRATCH COPY of /repo (never to /repo itself), run the
# named checks on the copy, print their findings. Safe to run concurrently with anything else.
P="$(readlink -f "$1")"; shift
exec python3 "$(dirname "$0")/try_patch.py" "$P" "$@"
