#!/bin/bash
# try_seed.sh <patch.diff> <ID> [more IDs]: apply to /repo, run the checks, revert.
P="$1"; shift
cd /repo || exit 2
if [ -n "$(git status --porcelain --untracked-files=no)" ]; then echo "/repo is dirty"; exit 2; fi
git apply "$P" || { echo "patch does not apply"; exit 2; }
for id in "$@"; do
  (cd /verif && ./check "$id" 2>&1 | grep -E "^VIOLATION|rule=|^C[0-9]+:|FATAL" | sed "s/^/[$id] /")
done
git checkout -q -- .
git status --porcelain --untracked-files=no
