#!/usr/bin/env python3
"""Regenerate the seeded-change table of DESIGN.md (between the SEEDTABLE markers) from seeded/*/meta.json."""
import glob, json, os, re
V = os.path.dirname(os.path.dirname(os.path.abspath(__file__)))
rows = []
n = miss = 0
for p in sorted(glob.glob(os.path.join(V, "seeded", "*", "meta.json"))):
    m = json.load(open(p))
    sid = os.path.basename(os.path.dirname(p))
    d = m.get("detected_by")
    n += 1
    miss += 0 if d else 1
    rows.append("| %s | %s | %s |" % (sid, m["needs_to_manifest"].replace("|", "\\|"),
                                      (d or "**missed** (see below)").replace("|", "\\|")))
path = os.path.join(V, "DESIGN.md")
s = open(path).read()
s = re.sub(r"<!-- SEEDTABLE:BEGIN -->\n.*?\n<!-- SEEDTABLE:END -->",
           lambda _: "<!-- SEEDTABLE:BEGIN -->\n" + "\n".join(rows) + "\n<!-- SEEDTABLE:END -->", s, flags=re.S)
open(path, "w").write(s)
print("%d seeded changes, %d reported, %d missed" % (n, n - miss, miss))
