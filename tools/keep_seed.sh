#!/bin/bash
# keep_seed.sh <worktree> <variant dir> <seed id> <property> "<needs>"   (after verify_seed.sh said SEED-CONFIRMED)
WT="$1"; V="$2"; SID="$3"; PROP="$4"; NEEDS="$5"
D=/verif/seeded/$SID
mkdir -p "$D"
cp "$WT/$V/patch.diff" "$D/patch.diff"
rm -rf "$D/demo"; cp -r "$WT/$V/demo" "$D/demo"
find "$D/demo" -name target -type d -prune -exec rm -rf {} + 2>/dev/null
find "$D/demo" -size +400k -type f -delete 2>/dev/null
cp "$WT/$V/README.md" "$D/README.md" 2>/dev/null
RES=$(grep -E "tests_rc=|SEED-" "$WT/$V/verify.summary" 2>/dev/null | tr '\n' ' ')
python3 - "$D" "$PROP" "$NEEDS" "$RES" <<'PY'
import json,sys
d,prop,needs,res=sys.argv[1:5]
json.dump({"property":prop,"needs_to_manifest":needs,
 "confirmed_by":"tools/verify_seed.sh in a scratch worktree: patch applies; cargo test --workspace --no-fail-fast --offline passes with the patch; demo/run.sh fails with the patch and passes without",
 "verify_result":res,"detected_by":None},open(d+"/meta.json","w"),indent=1)
PY
echo kept $SID
