#!/usr/bin/env python3
"""Generates /verif/MANIFEST.json from the table below (single source of truth for claims)."""
import json
import os

VERIF = os.path.dirname(os.path.dirname(os.path.abspath(__file__)))

CLAIMED = {
    # id: (technique, level text, level note, design ref)
    "C03": ("MIR field-use coverage + match exhaustiveness + backward slice + dominance (custom rustc_private driver)",
            "Decides six structural necessary conditions of the property exactly on every run (checker traversal "
            "completeness over all child-bearing AST fields, no catch-all in dispatchers, scope-chain lookup for the "
            "mutability test, no diagnostics at Span::default, every lowered program dominated by a successful check, "
            "parameter types consumed on the call path). It does not decide that each typing rule's logic is right.",
            "Trusted: rustc nightly MIR construction and callee resolution; factdrv serialisation; the exemption "
            "tables in rules/c03.py. Known genuine defects are listed in known_findings.json.",
            "DESIGN.md §4 C03"),
    "C08": ("MIR field-use coverage, match exhaustiveness, decision-table extraction (formatter o registry o parser), "
            "taint flow to the writer, writer typestate",
            "Decides necessary conditions of meaning preservation exactly: every non-span AST field is read by the "
            "formatter; dispatchers name every variant; operator spellings round-trip through the lexer registry and "
            "the parser's token table (all extracted from MIR, exhaustive over the operator enums); escape tables of "
            "formatter and lexer are inverse; quoted payloads reach the writer only through an escaping call; float "
            "literals keep their kind; statements end their line. It does not decide parse(fmt(x)) = parse(x).",
            "Trusted: rustc nightly MIR; the lexer tokenises by the registry spellings; QUOTED_PAYLOADS table in "
            "rules/c08.py. Known genuine defects in known_findings.json.",
            "DESIGN.md §4 C08"),
    "C09": ("dominance / control-dependence on mode flags, who-may-call over std::fs, abstract interpretation of the "
            "FormatWriter typestate",
            "Decides exactly: fs mutators in format_files are dominated by !check_mode and !diff_mode and the "
            "formatting API cannot reach a mutator; rewrite and --check verdict share one comparison; the writer's "
            "abstract state at finish() is 'exactly one newline'; no newline follows a literal ending in a blank; no "
            "tab literal. fmt(fmt(x)) == fmt(x) itself (a relation between two runs) is not decided.",
            "Trusted: rustc nightly MIR; writer API transfer functions in rules/linestate.py; run-time strings "
            "assumed non-empty without trailing blank; BLANK_EXEMPT table. Known findings listed.",
            "DESIGN.md §4 C09"),
    "C11": ("panic-site inventory over the resolved call-graph closure of the front-end entry points, with "
            "dominance-based guard discharge and checked structural invariants",
            "Decides exactly: every bounds assert, Index call, str range slice, unwrap/expect, panic!/unreachable!, "
            "RefCell borrow, str::repeat and Vec remove/insert/drain in the ~1150 functions reachable from lex, parse, "
            "check_with_imports, format_source, try_generate*, format_error and the LSP range conversions is covered by "
            "a dominating guard on the same container, a machine-checked invariant (parser cursor, SymbolTable scope "
            "index, registry completeness, RefCell borrow regions) or a reviewed per-site reason; lex/parse/check "
            "return Err only with a non-empty list; renderers clamp offsets with min(len). Termination, stack depth "
            "and 'every span lies inside the file' are not decided.",
            "Trusted: rustc nightly MIR; release profile (overflow asserts compiled out); the REVIEWED table in "
            "rules/c11.py (25 sites, one reason each); 'a parser method returning Ok consumed a token'.",
            "DESIGN.md §4 C11"),
    "C12": ("type-resolved call-site analysis: hash-iteration taint with idiom discharge, nondeterminism-source scan, "
            "control dependence of generated-file writes on filesystem queries",
            "Decides run-to-run determinism through its only sources: every HashMap/HashSet iteration in the closure "
            "of all output-producing entry points (1200+ functions) is sorted, order-insensitive, or individually "
            "reviewed with a machine-checked precondition; no clock/pid/random/env/thread/cwd source is reachable "
            "(one reviewed debug switch); read_dir results are sorted; generated-file writes are not "
            "control-dependent on the previous state of the output directory.",
            "Trusted: rustc nightly callee resolution; #![forbid(unsafe_code)] (no address-dependent behaviour); "
            "std HashMap/HashSet are the only randomly ordered containers in use; REVIEWED tables in rules/c12.py.",
            "DESIGN.md §4 C12"),
    "C07": ("exhaustive decision-table extraction by path-sensitive constant propagation over MIR (finite enum "
            "domain), compared with the documented table; call-graph single-policy rule; path rule for the "
            "compound-assignment arm",
            "The space operator x operand kind x exponent kind is finite and is enumerated completely (about 1300 "
            "cells): result_numeric_type, needs_float_promotion, from_literal_info, AST/IR adapters and their "
            "commutation with lower_binop, check_binary (checker), binary_result_type (lowering), "
            "determine_binop_plan (emitter: result type, casts, helper suffix, pow kind), types_compatible on the "
            "numeric cells, runtime trait impl Output types — each compared with the oracle transcribed from the "
            "numeric-semantics reference. Every phase is shown to reach the single policy function and the compound "
            "arm cannot bypass it.",
            "Trusted: rustc nightly MIR; the transcription of numeric_semantics.md in rules/c07.py::oracle; the "
            "evaluator's model of derived PartialEq/Clone on field-less enums. Nested expressions are covered "
            "because each phase applies the same cell function per node (structural induction not mechanised).",
            "DESIGN.md §4 C07"),
    "C04": ("abstract interpretation of the arithmetic helpers' MIR over the sign lattice (exhaustive over sign "
            "cases), sibling-table agreement, panic-site inventory, error-constant check",
            "For every helper the emitter can reference, every int/float instantiation and every sign combination: a "
            "zero divisor reaches raise_zero_division before any / or %; otherwise the helper returns r|r+b resp. "
            "q|q-1 with the correction applied iff r != 0 and sign(r) != sign(b) (Python's definition, valid for ALL "
            "i64/f64 operands because the kernels branch only on comparisons with zero); float // is floor(x/y); "
            "/ is x/y after promotion. Both kernel copies are tabulated and agree. Error kind/text constants equal "
            "the documented message. Other panic sites in the closure: none besides rustc's own division asserts.",
            "Assumes IEEE/Rust semantics of / % floor (remainder has the dividend's sign or is zero); q-1 "
            "non-overflow argued by hand; i64::MIN // -1 excluded by the property. Floating-point magnitude claims "
            "(|a % b| < |b|) rest on Rust's fmod and are not re-derived.",
            "DESIGN.md §4 C04"),
    "C05": ("dominance of guards over loops and element accesses, exception-constructor table, sign/bound "
            "classification of every i64 add/sub/mul in the kernels, token-use check in the slice parser, sibling "
            "signature agreement",
            "Decides necessary conditions exactly: zero-step tests err/diverge and dominate all loops and the range "
            "construction; range tests dominate element accesses; failures go through the documented exception "
            "constructors with the documented kind/text constants; each arithmetic step in the index/slice/range "
            "kernels is overflow-safe by a sign/bound argument (the `i += step` sites are not, reproduced); the "
            "slice parser handles the `::` token; str_slice and list_slice normalise bounds identically. "
            "Element-wise equality with Python for all sequences is not decided (needs a loop invariant).",
            "Trusted: rustc nightly MIR; release-profile wrap-around semantics; lengths <= isize::MAX; the "
            "documented messages transcribed in rules/c05.py::DOCUMENTED.",
            "DESIGN.md §4 C05"),
    "C16": ("field-use analysis (write-only fields), reachability/dominance in the runner loop, decision tables of the "
            "verdict mapping and the filter predicate (constant propagation over the closure's MIR)",
            "Decides: the test selection given to the code generator is actually consumed (today it is write-only: "
            "reproduced, every test passes vacuously); @skip tests cannot reach run_single_test; the raw->reported "
            "verdict mapping and counters are the documented ones; Err(FAILURE) iff failed>0 or xpassed>0; the "
            "-k/--slow predicate table (16 cells) is exactly the documented one; Passed only under "
            "status.success(). The verdict for arbitrary test files (needs cargo) is not decided.",
            "Trusted: rustc nightly MIR; cargo's exit status; the modelling of str::contains / slice::contains as "
            "free booleans in the filter table.",
            "DESIGN.md §4 C16"),
    "C13": ("backward slice from every identifier-construction site of the emitter (taint: user name -> Ident without "
            "escape), keyword-table comparison with rustc's own table dumped by the driver, spelling-test scan, "
            "registration coverage",
            "Decides: each of the 61 format_ident!/Ident::new sites takes a constant, a generated prefix, or a name "
            "that passed escape_keyword (45 do not: reproduced for functions, methods, fields, params, consts, "
            "traits, enums, variants, comprehension variables); the escape table equals rustc's edition-2021 "
            "keyword list minus Incan's own reserved words and never raw-escapes self/Self/super/crate; the table "
            "lookup is order-insensitive or sorted; lowering/emission contain no capitalisation tests outside the "
            "reviewed list (one: the constructor heuristic, reproduced); every nominal declaration kind registers in "
            "struct_names. Behavioural invariance under renaming is not decided.",
            "Trusted: rustc nightly MIR and rustc_span keyword table; edition 2021 for generated projects.",
            "DESIGN.md §4 C13"),
    "C18": ("typestate / dataflow over the async handlers' coroutine MIR: write-guard provenance of every mutation of "
            "the shared map, control dependence of the store on a version comparison, provenance of the published "
            "version",
            "Decides a necessary condition of convergence: every insertion into `documents` through a write guard is "
            "dominated by a comparison with the version already stored (violated today: unconditional insert, listed); "
            "each publish_diagnostics of the analysis carries the analysed version; did_open/did_change pass "
            "uri/text/version of one notification; did_close removes under the write guard. Guards live across await "
            "points are reported as information. All interleavings of handlers are not explored.",
            "Trusted: rustc nightly coroutine MIR (pre-transform); tower-lsp's concurrency (4 handlers). The rule is "
            "necessary, not sufficient, for the property.",
            "DESIGN.md §4 C18"),
    "C01": ("MIR field-use coverage of AST (lowering) and IR (emission), match exhaustiveness of 13 dispatchers, "
            "operator-identity decision tables vs Rust spelling oracle, grouping-carrier rule, slice of the "
            "reassign-vs-bind decision",
            "Decides necessary conditions of behaviour preservation: nothing the user wrote is dropped before Rust "
            "is produced (every non-span AST field read by lowering, every constructible IR field read by the "
            "emitter); dispatchers name every variant; operators keep their identity through AST->IR->token; source "
            "grouping has a carrier (it has none today: reproduced miscompilation); `x = e` is resolved by scope "
            "membership. Observable equivalence of the generated binary with the documented semantics is NOT "
            "decided (evaluation order, conversions, borrow/clone insertion).",
            "Trusted: rustc nightly MIR; exemption tables in rules/c01.py (decorators, labels, redundant fields); "
            "TOKEN_ORACLE/BINOP_ORACLE transcriptions.",
            "DESIGN.md §4 C01"),
    "C02": ("dominance (check-before-lower, parse2-before-Ok), per-variant always-error arm classification across "
            "checker and lowering, reconstruction of quote! template paths from MIR resolved against the runtime "
            "crates' module tables, walker exhaustiveness of the import tracker, token-shape rule, derive-name scope",
            "Decides necessary conditions of `check passes => build succeeds`: strict policy holds for every lowered "
            "program (violated for dependency modules, listed); emitted text is returned only after syn::parse2 "
            "succeeded; no construct accepted by the checker is unconditionally refused by lowering (TupleAssign is); "
            "all 39 incan_stdlib/incan_derive paths in emitter templates resolve to pub items (with feature gating) "
            "and all external crates are declarable; the import tracker visits every IR kind that can hold a dict/set "
            "literal (16 kinds are skipped, reproduced); float casts are emitted as one group (they are not, "
            "reproduced); derive names resolve to macros in scope (Display does not). rustc acceptance in general "
            "(argument types of templates, borrow checking) is not decided.",
            "Trusted: rustc nightly MIR; runtime crate facts extracted with features json,web; quote! expansion "
            "shape (push_ident/push_colon2 sequences).",
            "DESIGN.md §4 C02"),
    "C06": ("call-graph identity of compile-time and run-time string kernels, dominance/post-dominance typestate of "
            "cycle detection, cross-stage accept/reject comparison per initializer form, const-fn facts of helpers",
            "Decides: the const evaluator and the runtime wrappers named by the emitter reach the same four "
            "incan_core::strings kernels and raise through the same IncanError constructors; cycle detection marks "
            "InProgress before and Done after every recursive evaluation and reports in the InProgress arm (same for "
            "the emitter's string folding); every initializer form the evaluator accepts lowers to a form the "
            "emitter's validator accepts (Index/Slice do not, reproduced); every helper that can be spliced into a "
            "const initializer is a const fn (none of the 13 numeric/string helpers is, reproduced with rustc E0015). "
            "Equality of compile-time and run-time VALUES for all expressions is not decided.",
            "Trusted: rustc nightly MIR and is_const_fn; runtime crate facts (features json,web).",
            "DESIGN.md §4 C06"),
    "C17": ("control-dependence slice of the checked-construction rewrite, shape-filter rule on hook selection, "
            "post-dominance of the context restore, who-may-write on the hook registry, nominal-typing table",
            "Decides: the rewrite T(x) -> T::hook(x).expect(..) is guarded only by hook presence, argument shape and "
            "the inside-impl exemption (never by the lowered type of T); hook candidates are filtered by shape before "
            "they are counted and from_underlying is preferred; current_impl_type is restored on every exit; the hook "
            "registry is fed only from the file being lowered (imported validated newtypes are constructed unchecked: "
            "reproduced, listed); distinct nominal types are incompatible. Run-time rejection for all values is not "
            "decided.",
            "Trusted: rustc nightly MIR; the evaluator's model of string equality for the nominal table.",
            "DESIGN.md §4 C17"),
    "C14": ("call-graph single-resolver rule restricted to the front ends' closure, dominance of extension probes and "
            "visited-set tests, exhaustive decision tables of the visibility predicates (constant propagation over "
            "MIR), provenance slices of the dependency-exports key, error-on-unresolved rule",
            "Decides: which functions reachable from CLI/LSP resolve imports to files (the CLI has its own resolver: "
            "listed, reproduced against incan-lsp); `.incn` before `.incan` in each; foreign declarations collected "
            "only under is_public_decl, and is_public_decl / exported_symbols are exactly `visibility == Public` for "
            "all 9 declaration kinds x 2; lookup and registration keys of dependency exports agree (the LSP's do "
            "not: reproduced); visited-set tests dominate work in both work lists; an unresolved import reports an "
            "error (it does not: reproduced). Which file every import spelling denotes on every layout is not "
            "decided.",
            "Trusted: rustc nightly MIR; the evaluator's model of Vec iteration in exported_symbols.",
            "DESIGN.md §4 C14"),
    "C15": ("constant/template scan of the manifest generator, control-dependence slices of each dependency line, "
            "template-crate vs manifest-crate comparison, loop-coverage of feature scans in prepare_project, "
            "per-walker coverage of the feature scanners",
            "Decides: no `\"*\"` dependency template exists and the unknown-crate error is constructed (neither "
            "holds: reproduced); every fixed dependency line is guarded by exactly its feature flag; every crate "
            "named by an emitter template is declarable; feature scans and rust-crate collection run over all parsed "
            "modules (they run over the entry module only: reproduced); the json/serde scanner visits every statement "
            "and expression kind and every decorator (12 gaps, reproduced for `if` conditions); the manifest template "
            "has package/target/edition/workspace keys. That the manifest is right for every program is not decided "
            "behaviourally.",
            "Trusted: rustc nightly MIR; recovery of format! templates from lowered constants. The async and "
            "list-helper scanners are deliberately not armed (reasons in rules/c15.py).",
            "DESIGN.md §4 C15"),
    "C20": ("derive-name scope table, exhaustive decision table of extract_derives by constant propagation, "
            "hash-iteration and ancestor-order rules on the field list, token scan of struct/enum templates, template "
            "path linkage of the JSON helpers",
            "Decides the conditions under which delegating to serde and the std derives is faithful: every accepted "
            "derive name resolves to a macro in scope (Display does not: listed); the derive set is closed under Rust's "
            "prerequisites (Eq=>PartialEq, Ord=>PartialOrd+Eq+PartialEq) for every single-derive input; struct fields "
            "reach the emitter in declaration order with ancestors first and no hash iteration; no serde attribute is "
            "attached by the struct/enum templates; to_json/from_json/json_stringify link serde_json and the canonical "
            "error helpers. Round trip, structural ==, lexicographic Ord and Hash/Eq consistency for all values are "
            "properties of serde/std (trusted base), not decided here.",
            "Trusted: serde, serde_json, std derives; rustc nightly MIR; the evaluator's Vec/iterator model.",
            "DESIGN.md §4 C20"),
}

NOT_APPLICABLE = {
    "C10": "2-safety property over two different inputs of the lexer (token stream equality under layout edits); no "
           "structural fact about the lexer's code is a necessary condition of it that a behaviour-preserving rewrite "
           "would not also change; deciding it needs transducer equivalence / symbolic execution, a different family.",
    "C19": "value-level round-trip / monotonicity of two hand-written loops over runtime offsets; nothing about their "
           "shape is a necessary condition that survives refactoring; exhaustive small-document enumeration is a "
           "dynamic technique. Panic-freedom of these functions is covered under C11.",
}

# clauses added after the first claim texts were written (see DESIGN.md §4 for the exact statements)
EXTRA = {
    "C01": "Also decided: the two lowering iterations that are only correct back to front (elif fold, scope lookup) are "
           "reversed (FOLDORDER); each builtin / method arm of the four emit dispatchers can produce the Rust name of "
           "its operation and not the name of the opposite one, helpers read under the constant flags they are called "
           "with (BUILTINID); no binary operator in the anchored files has identical operands (EQOP, HIR scan).",
    "C17": "HOOKSELECT reads what the filters in front of the candidates' collect() consume (receiver, name, params, "
           "return_type); REWRITE follows the decision into a same-file helper; the hook table is complete before any body is "
           "lowered (HOOKFIRST).",
    "C03": "Also decided: a parser function that lexes a substring again receives a base offset or its result is rebased "
           "(SUBSPAN); the type tested by ensure_bool_condition, the span it blames and the compatibility flag belong to "
           "one expression (COHERENT); types_compatible never equates distinct nominal/generic heads (NOMINAL, decision table); checker "
           "context set on entry to a nested body is restored on exit (CTXSCOPE); two run-time names are related only by "
           "equality or hash lookup, never by prefix/suffix/substring (NAMEEQ); a binder and the body it scopes over are checked at the same "
           "scope depth (SCOPEDEPTH, forward dataflow over enter/exit_scope with helper summaries); constant indices "
           "into type-argument lists are 0 or 1 (TYARGIDX); the return type a body is checked against is resolved in "
           "the second pass, not read back from the first-pass symbol table (PASS2TYPE).",
    "C05": "Index and slice normalisation are now decided semantically for ALL indices: relational abstract "
           "interpretation (rules/idxeval.py: linear forms over idx/len/end/step, polyhedra refined at every branch, "
           "Fourier-Motzkin decisions, two symbolic loop iterations) compares list_get, list_get_mut, "
           "normalize_index, str_slice and list_slice with Python's indexing and slice.indices over every region of "
           "the input space (INDEXMAP, SLICEMAP; violations come with an integer witness; paths through unmodelled "
           "operations are counted as undecided and never reported). The bounds guard is discharged by INDEXMAP or "
           "checked structurally; explicit saturating_*/checked_* arithmetic counts as overflow-safe, wrapping_* as a "
           "finding. The syntactic sibling comparison of the two slice kernels is no longer armed.",
    "C06": "Also decided: both operands of a binary const expression are evaluated on every path (OPERANDS); the const "
           "evaluator never folds //, %, /, ** with Rust's native operators (RAWARITH, with a detector self-check on "
           "the incan_core kernels); the table resolve_static_str_const reads is complete before the first resolution "
           "(TWOPASS); every exit of the in-progress arm of eval_const_by_name reports the cycle; no binary operator "
           "in the anchored files has identical operands (EQOP).",
    "C07": "EQOP as in C04; the checker's exponent classifier looks through Expr::Paren (EXPSHAPE); check_program checks "
           "every const before any other declaration (CONSTFIRST). Also decided: no path in the compound-assignment arm avoids the policy call except over a not-numeric edge "
           "(NOBYPASS); only the three syntactic classifiers call PowExponentKind::from_literal_info (EXPKIND).",
    "C08": "Also decided: the formatter lexes exactly the text it was given (SRCTEXT); a library byte escaper used by the "
           "Bytes arm is invertible by the byte lexer (model of std::ascii::escape_default); the Tuple arm writes the "
           "singleton comma (TUPLE1); a printer function that consults a field of the node it prints consults it on "
           "every path (EVERYPATH, 60+ function/field pairs, two reviewed exemptions); the String arm writes only the "
           "constant double quote and the escaped payload (STRDELIM); every backslash escape escape_string can write is "
           "decoded by the text lexer.",
    "C12": "Also counted as iteration sites: hash containers handed to extend / from_iter of an ordered sequence.",
    "C13": "Also decided: the escaped spelling never reaches a map/set lookup, a crate-local lookup method or a name "
           "comparison (ESCKEY, incl. identifier text and closure captures); a method name becomes a builtin MethodKind only "
           "after a test of the receiver's type (METHODRECV; 2 known findings); a name is a tuple index only when all "
           "its characters are digits (DIGITCLASS); Rust text parsed into tokens is an identifier construction site "
           "(PARSEDNAME).",
    "C11": "Also decided (part of the span clause): every Span::new in the parser takes its ends from token spans; "
           "nothing in the backward slice of its arguments measures decoded text (SPANSRC).",
    "C04": "Also decided: no binary operator in the anchored files has identical operands (EQOP).",
    "C14": "Also decided: check_with_imports records the export list of every dependency, also an empty one (REGALL); "
           "no file probe is reachable after a directory probe in the shared resolver; the key recorded in a work-list's "
           "visited set is the key it is tested with.",
    "C15": "Also decided: feature flags are read only after every scan_for_* has run (SCANORDER); a crate is recorded as "
           "already declared exactly on the paths that pushed its dependency line (both directions).",
    "C16": "Also decided: -x examines the reported result, after the xfail inversion (STOP); harness files are rewritten "
           "from the current source before every cargo run; EXIT is decided by propagating each truth assignment of "
           "`failed > 0` / `xpassed > 0` to the final returns; each flag parameter of run_tests receives the command-line "
           "field it stands for (FLAGWIRING).",
    "C18": "Also decided: the analysed state is stored before diagnostics are published (STOREFIRST); only "
           "analyze_document and did_close write `documents` and no handler skips the analysis of a change "
           "(WHOMAYWRITE); did_close removes the entry before polling any future other than the lock's; every return of "
           "analyze_document passes a publish_diagnostics call (ALWAYSPUBLISH); did_change takes the change "
           "unconditionally.",
}
THOROUGH = (" Thorough tier = the same rules plus a sensitivity self-test: every recorded seeded change this check detects "
            "(/verif/seeded) is applied to a scratch copy of /repo's current tree and must be re-detected by the same "
            "static check (results under coverage.sensitivity_self_test).")

NOT_BUILT = "static check not built"

ALL = ["C%02d" % i for i in range(1, 21)]


def main():
    checks = []
    for pid in ALL:
        if pid in CLAIMED:
            tech, text, note, ref = CLAIMED[pid]
            checks.append({
                "property_id": pid,
                "quick_cmd": "./check %s --tier quick" % pid,
                "thorough_cmd": "./check %s --tier thorough" % pid,
                "evidence_file": "/verif/evidence/%s.json" % pid,
                "replay_cmd_template": "./check %s --replay {path}" % pid,
                "engine": "factdrv+rules",
                "level_claimed": {"category": "other",
                                  "text": text + ((" " + EXTRA[pid]) if pid in EXTRA else "") + THOROUGH,
                                  "design_ref": ref},
                "level_note": note,
                "technique": tech,
            })
    na = []
    for pid in ALL:
        if pid in CLAIMED:
            continue
        na.append({"property_id": pid, "reason": NOT_APPLICABLE.get(pid, NOT_BUILT)})
    m = {
        "version": 1,
        "setup_cmd": "cd /verif/tools/factdrv && CARGO_NET_OFFLINE=true cargo +nightly build --release --offline && "
                     "cd /verif && ./tools/extract.sh default /verif/.cache/facts/warmup warmup >/dev/null 2>&1; "
                     "./tools/extract.sh stdlib_web /verif/.cache/facts/warmup2 warmup >/dev/null 2>&1; "
                     "rm -rf /verif/.cache/facts/warmup /verif/.cache/facts/warmup2; true",
        "hooks": {
            "guard": "incan_verif",
            "enable": "none needed: the checks read /repo's unmodified working tree through a rustc wrapper "
                      "(RUSTC_WORKSPACE_WRAPPER=factdrv under cargo +nightly check); no source hooks exist",
            "baseline_off_cmd": "cd /repo && cargo test --workspace --no-fail-fast --offline",
            "source_commits": [],
            "add_only": True,
        },
        "engines": [
            {"name": "factdrv", "path": "/verif/tools/factdrv", "serves_properties": sorted(CLAIMED),
             "kind_free_text": "nightly rustc_private driver dumping mir_built facts (CFG, resolved callees, typed "
                               "field projections, ADT/impl/module tables) as JSONL"},
            {"name": "rules", "path": "/verif/rules", "serves_properties": sorted(CLAIMED),
             "kind_free_text": "python3 rule engines over the facts: COVER, EXHAUST, DOM, TABLE, SIGN, HASHORDER, "
                               "PANIC, CONSUME, WALKER, LINESTATE, LOCKSTATE, LINK, mireval/signeval (DESIGN.md §3); "
                               "rules/sensitivity.py = thorough-tier self-test"},
        ],
        "checks": checks,
        "not_applicable": na,
        "notes": "Technique family: static analysis only. Every check regenerates MIR facts from /repo's current "
                 "working tree (content-hash keyed cache under /verif/.cache), evaluates repository-specific rules, "
                 "prints VIOLATION lines for findings not listed in known_findings.json and KNOWN-FINDING lines "
                 "for listed ones.",
    }
    json.dump(m, open(os.path.join(VERIF, "MANIFEST.json"), "w"), indent=1)
    print("MANIFEST.json: %d claimed, %d not applicable" % (len(checks), len(na)))


if __name__ == "__main__":
    main()
