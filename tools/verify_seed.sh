#!/bin/bash
# verify_seed.sh <worktree> <variant dir, e.g. _seed/A>  -> confirms: applies, builds, full suite passes, demo fails with / passes without
WT="$1"; V="$2"
cd "$WT" || exit 2
git checkout -q -- . 2>/dev/null
LOG="$WT/$V/verify.log"; : > "$LOG"
echo "== apply" >> "$LOG"
git apply "$V/patch.diff" >> "$LOG" 2>&1 || { echo "APPLY-FAILED"; exit 1; }
echo "== build+test (patched)" >> "$LOG"
CARGO_NET_OFFLINE=true cargo test --workspace --no-fail-fast --offline >> "$LOG" 2>&1
TRC=$?
PASS=$(grep -E "^test result: ok" "$LOG" | wc -l); FAILL=$(grep -E "^test result: FAILED|^error" "$LOG" | wc -l)
CARGO_NET_OFFLINE=true cargo build --workspace --offline >> "$LOG" 2>&1
echo "== demo (patched)" >> "$LOG"
bash "$V/demo/run.sh" "$WT" >> "$LOG" 2>&1; D1=$?
git checkout -q -- .
CARGO_NET_OFFLINE=true cargo build --workspace --offline >> "$LOG" 2>&1
echo "== demo (pristine)" >> "$LOG"
bash "$V/demo/run.sh" "$WT" >> "$LOG" 2>&1; D0=$?
{ echo "tests_rc=$TRC ok_lines=$PASS fail_lines=$FAILL demo_patched_rc=$D1 demo_pristine_rc=$D0"
if [ $TRC -eq 0 ] && [ $D1 -ne 0 ] && [ $D0 -eq 0 ]; then echo "SEED-CONFIRMED"; else echo "SEED-REJECTED"; fi; } | tee "$WT/$V/verify.summary"
