"""C17 — a validated newtype can never hold an invalid value (DESIGN.md §4 C17).

Run-time rejection for all values is NOT decided. Decided structural clauses:
  1 REWRITE     the `T(x)` -> `T::hook(x).expect(..)` rewrite in lowering is guarded only by: "T has a hook",
                "one positional argument", "not inside T's own impl" (plus the constructor-detection test); it does
                not depend on the lowered type of T (which is only known once T's declaration has been lowered)
  2 HOOKSELECT  hook candidates are filtered by SHAPE (one parameter of the underlying type, returns Result[T, _])
                before they are counted; `from_underlying` is preferred
  3 PAIR        current_impl_type (the inside-impl exemption) is restored on every exit of both setters
  4 IMPORTED    the hook registry also learns the validated newtypes of imported modules
  5 NOMINAL     distinct newtypes are not interchangeable: types_compatible(Named(A), Named(B)) is false (table
                shared with C03)
"""
from engines import (AST, IR, arm_regions, backward_slice, blocks_dominated_by_edge, body_and_closures,
                     callee_generic, callee_name, discr_switches, iter_operands_rv, op_place, place_fields,
                     postdominators, primary_dispatch, resolve_str, const_str)
from harness import Finding, Report

EXPLANATION = (
    "Static analysis of the newtype construction rewrite in src/backend/ir/lower. (1) control dependence: the "
    "branches that dominate the construction of the `.expect(..)` method call in lower_expr's Call arm are sliced "
    "back; they may read newtype_checked_ctor, current_impl_type, the argument list and the constructor-detection "
    "test, but no branch on an IrType value; (2) the candidate filter closure of select_newtype_checked_ctor calls "
    "both shape predicates and the from_underlying preference precedes the single-candidate rule; (3) the "
    "assignment restoring current_impl_type post-dominates the replace() in both setters; (4) who writes "
    "newtype_checked_ctor: only lower_program from the file being lowered, so imported validated newtypes are "
    "constructed unchecked (reproduced); (5) nominal-typing cells of types_compatible. Rejection of every invalid "
    "value at run time is not decided.")


def run(facts, rep, tier):
    F = facts["default"]
    rep.assumptions += ["rustc nightly MIR describes the program the stable toolchain builds"]
    rewrite(F, rep)
    hookselect(F, rep)
    pair(F, rep)
    imported(F, rep)
    nominal(F, rep)
    hooktable_first(F, rep)


def lowering_field_reads(f, locs):
    out = set()
    for b in f.blocks:
        for s in b["st"]:
            if s["s"] == "assign" and s["d"]["l"] in locs:
                rv = s["rv"]
                pls = [op_place(o) for o in iter_operands_rv(rv)]
                if "p" in rv and isinstance(rv["p"], dict):
                    pls.append(rv["p"])
                for pl in pls:
                    if pl:
                        for (adt, v, fl) in place_fields(pl):
                            if adt.endswith("lower::AstLowering"):
                                out.add(fl)
    return out


def rewrite(F, rep):
    f = F.one_fn("AstLowering>::lower_expr")
    if not rep.anchor("REWRITE", "lower_expr", f):
        return
    rep.functions.add(f.path)
    # the rewrite: a block that mentions the literal "expect" as method name
    targets = []
    for bi, b in enumerate(f.blocks):
        for s in b["st"]:
            if s["s"] == "assign":
                for o in iter_operands_rv(s["rv"]):
                    if const_str(o) == "expect":
                        targets.append(bi)
        t = b["term"]
        if t["t"] == "call":
            for o in t["args"]:
                if resolve_str(f, o) == "expect":
                    targets.append(bi)
    if not rep.anchor("REWRITE", "construction of the `.expect(..)` call in lower_expr", targets):
        return
    tb = targets[0]
    sw = primary_dispatch(f, AST + "Expr")
    arm = arm_regions(f, sw).get("Call", set()) if sw else set()
    if not rep.anchor("REWRITE", "Expr::Call arm", arm):
        return
    pdom = postdominators(f)

    def control_deps(block):
        out = []
        for b in sorted(arm):
            t = f.term(b)
            if t["t"] != "switch" or b == sw["block"] or block in pdom.get(b, set()):
                continue
            if any(block in blocks_dominated_by_edge(f, b, s2) for s2 in f.succs()[b]):
                out.append(b)
        return out

    # control dependences of the rewrite, closed under "the guard's value was itself computed under a branch"
    guards = []
    work = [tb]
    seen_blocks = set()
    while work:
        blk = work.pop()
        if blk in seen_blocks:
            continue
        seen_blocks.add(blk)
        for g in control_deps(blk):
            if g not in guards:
                guards.append(g)
                pl = op_place(f.term(g)["on"])
                if pl is not None:
                    locs, _, _ = backward_slice(f, [pl["l"]])
                    for bi2, b2 in enumerate(f.blocks):
                        if bi2 not in arm:
                            continue
                        if any(s2["s"] == "assign" and s2["d"]["l"] in locs for s2 in b2["st"]) or \
                                (b2["term"]["t"] == "call" and not b2["term"]["d"]["p"] and
                                 b2["term"]["d"]["l"] in locs):
                            work.append(bi2)
    guards.sort()
    rep.floor("REWRITE", "branches the rewrite is control-dependent on", len(guards), 3)
    # struct_names is filled in source order while declarations are lowered: a guard that REQUIRES membership there
    # makes the rewrite depend on whether T is declared above or below the use site (seeded change C17-c)
    allowed = {"newtype_checked_ctor", "current_impl_type"}
    seen_hook = seen_impl = False
    # guards: (function, block); a guard whose value comes from a helper method of the same file (the decision extracted
    # into `fn checked_ctor_for_call(..) -> Option<..>`) is followed into the helper: there, whatever controls the
    # construction of `Some(..)` is a guard of the rewrite as well
    todo = [(f, b) for b in guards]
    seen_g = set()
    while todo:
        g, b = todo.pop()
        if (g.path, b) in seen_g:
            continue
        seen_g.add((g.path, b))
        t = g.term(b)
        pl = op_place(t["on"])
        locs, calls, _ = backward_slice(g, [pl["l"]]) if pl is not None else (set(), [], set())
        flds = lowering_field_reads(g, locs)
        names = [(callee_generic(ct) or "").split("::")[-1] for _, ct in calls]
        for _, ct in calls:
            cn = callee_name(ct) or ""
            h = F.fns.get(cn)
            if h is None or h.file != f.file or h.path == f.path or "AstLowering" not in cn:
                continue
            rep.functions.add(h.path)
            somes = [bi for bi, blk in enumerate(h.blocks) for st in blk["st"]
                     if st["s"] == "assign" and st["rv"]["r"] == "agg" and st["rv"].get("variant") in ("Some", "Ok")
                     and (st["rv"].get("adt") or "").startswith("core::")]
            hp = postdominators(h)
            for sb in somes:
                for hb in range(len(h.blocks)):
                    ht = h.term(hb)
                    if ht["t"] != "switch" or sb in hp.get(hb, set()):
                        continue
                    if any(sb in blocks_dominated_by_edge(h, hb, s2) for s2 in h.succs()[hb]):
                        todo.append((h, hb))
            # `let x = self.map.get(k)?;` — the Option is consumed by `?`: its source is a guard too
            flds |= lowering_field_reads(h, set(range(len(h.locals)))) & {"newtype_checked_ctor", "current_impl_type"} \
                if not somes else set()
        on_irtype = False
        d = g.single_def(pl["l"]) if pl is not None else None
        if d and d[2] == "assign" and d[3]["r"] == "discr" and d[3].get("adt", "").endswith("types::IrType"):
            on_irtype = True
        seen_hook |= "newtype_checked_ctor" in flds
        seen_impl |= "current_impl_type" in flds
        ok = flds <= allowed and not on_irtype
        # the inside-impl exemption is for `impl T` itself: the guard has to COMPARE current_impl_type with the name of
        # the type being constructed; a bare is_none()/is_some() exempts (or not) every impl body alike
        if "current_impl_type" in flds and names and all(nm in ("is_none", "is_some") for nm in names):
            rep.oblige("REWRITE", "exemption-compares-with-T@bb%d" % b, False)
            rep.add(Finding("REWRITE", "REWRITE|lower_expr|exemption-not-compared",
                            "the inside-impl exemption of the checked-construction rewrite only asks whether SOME impl "
                            "is being lowered (current_impl_type.%s()) instead of comparing it with the type being "
                            "constructed: `T(x)` inside a method of any other type skips the validation hook"
                            % names[0], file=g.file, line=t.get("ln"), fn=g.path))
        inst = "guard@%s:bb%d" % (g.path.split("::")[-1], b) if g is not f else "guard@bb%d" % b
        rep.oblige("REWRITE", inst, ok, sample={"rule": "REWRITE", "fn": g.path.split("::")[-1], "line": t.get("ln"),
                                                "reads": sorted(flds), "via": sorted(set(names))[:5],
                                                "branch_on_IrType": on_irtype})
        if not ok:
            what = "the lowered IrType of the type name" if on_irtype else "lowering state %s" % sorted(flds - allowed)
            rep.add(Finding("REWRITE", "REWRITE|lower_expr|guard-on-%s" % ("IrType" if on_irtype else
                                                                           "-".join(sorted(flds - allowed))),
                            "the newtype checked-construction rewrite is additionally guarded by %s: that is only "
                            "known after the newtype's own declaration has been lowered, so `T(x)` in a function "
                            "placed above `type T = newtype ..` silently becomes a raw wrap and the validation hook "
                            "is skipped" % what, file=g.file, line=t.get("ln"), fn=g.path))
    for name, ok in (("hook-registry-consulted", seen_hook), ("inside-impl-exemption-consulted", seen_impl)):
        rep.oblige("REWRITE", name, ok)
        if not ok:
            rep.add(Finding("REWRITE", "REWRITE|lower_expr|%s" % name,
                            "the rewrite is no longer guarded by %s" % name, file=f.file, line=f.term(tb).get("ln"),
                            fn=f.path))


def hookselect(F, rep):
    """The Vec of hook candidates that is COUNTED (len() == 1, slice pattern, pop) was produced by an iterator chain
    whose filters decide on the method's shape: receiver (static), name (from_*), params (one parameter of the underlying
    type) and return_type (Result[T, _]). The rule reads what the filter closures and the functions they call consume
    (CONSUME engine), not how the predicates are named or nested."""
    from engines import field_consumption
    f = F.one_fn("AstLowering::select_newtype_checked_ctor")
    if not rep.anchor("HOOKSELECT", "select_newtype_checked_ctor", f):
        return
    rep.functions.add(f.path)
    own = [p for p in F.fns if p == f.path or p.startswith(f.path + "::")]
    collects = []
    for p in own:
        g = F.fns[p]
        for bi, t in g.calls():
            if (callee_generic(t) or "").endswith("Iterator::collect") and "MethodDecl" in t["f"].get("inst", "") and \
                    "Vec" in t["f"].get("inst", "") and "String" not in t["f"].get("inst", "").split("MethodDecl")[0][-30:]:
                collects.append((g, t))
    collects = [(g, t) for g, t in collects if g.path == f.path] or collects
    if not rep.anchor("HOOKSELECT", "collect() of the hook candidates", collects):
        return
    g, t = collects[0]
    # walk the adaptor chain backwards and gather the closures / function items it filters with
    preds = []
    cur = op_place(t["args"][0]) if t["args"] else None
    for _ in range(10):
        if cur is None:
            break
        d = g.single_def(cur["l"])
        if d is None or d[2] != "call":
            if d and d[2] == "assign" and d[3]["r"] in ("use", "cast") and op_place(d[3]["o"]) is not None:
                cur = op_place(d[3]["o"])
                continue
            break
        ct = d[3]
        gg = (callee_generic(ct) or "").split("::")[-1]
        if gg in ("filter", "filter_map", "take_while", "skip_while", "map_while") and len(ct["args"]) > 1:
            a = op_place(ct["args"][1])
            dd = g.single_def(a["l"]) if a is not None and not a["p"] else None
            if dd and dd[2] == "assign" and dd[3]["r"] == "agg" and dd[3].get("ak") == "closure":
                preds.append(dd[3]["def"])
        cur = op_place(ct["args"][0]) if ct["args"] else None
    if not rep.anchor("HOOKSELECT", "filter closure(s) in front of the candidates' collect()", preds):
        return
    fam = set()
    for c in preds:
        fam |= F.closure([c], pred=lambda q: F.fns[q].file == f.file or q.startswith(f.path))
    cons = field_consumption(F, fam)
    got = {k[2] for k in cons if k[0].endswith("ast::MethodDecl")}
    got |= {"params.ty" for k in cons if k[0].endswith("ast::Param") and k[2] == "ty"}
    # for `receiver: Option<Receiver>` the question "is there one?" is the whole content: a plain read counts
    got |= {k[2] for k in F.field_reads(fam) if k[0].endswith("ast::MethodDecl") and k[2] == "receiver"}
    for fld, what in (("receiver", "a static method (no receiver)"), ("name", "the from_* naming convention"),
                      ("params", "exactly one parameter of the underlying type"),
                      ("return_type", "the return type Result[T, _]")):
        ok = fld in got
        rep.oblige("HOOKSELECT", "filter:" + fld, ok, sample={"rule": "HOOKSELECT", "candidate_filter_consumes":
                                                              sorted(got), "needs": fld})
        if not ok:
            rep.add(Finding("HOOKSELECT", "HOOKSELECT|filter|%s" % fld,
                            "the hook candidates that are counted were not filtered on %s (MethodDecl.%s is not "
                            "consumed by the filters in front of collect()): an unrelated static from_* helper makes "
                            "the selection ambiguous, no hook is chosen and every T(x) is constructed unchecked"
                            % (what, fld), file=g.file, line=t.get("ln"), fn=g.path))
    pref = any((callee_generic(t2) or "").endswith("::find") for q in own for _, t2 in F.fns[q].calls())
    # ... and before the number of candidates decides anything: every len() of the candidates is taken after the search
    finds = [bi for bi, t2 in f.calls() if (callee_generic(t2) or "").endswith("::find")]
    lens = [bi for bi, t2 in f.calls() if (callee_generic(t2) or "").endswith("::len") and "Vec" in (callee_generic(t2) or "")]
    dom_f = f.dominators()
    if pref and finds and lens:
        pref = all(any(fb in dom_f.get(lb, set()) for fb in finds) for lb in lens)
    rep.oblige("HOOKSELECT", "prefers-from_underlying", pref)
    if not pref:
        rep.add(Finding("HOOKSELECT", "HOOKSELECT|preference", "select_newtype_checked_ctor no longer searches the "
                        "candidates for from_underlying before the number of candidates decides: a newtype with "
                        "from_underlying plus another well-shaped from_* gets no hook at all", file=f.file,
                        line=f.line, fn=f.path))


def pair(F, rep):
    n = 0
    for p, f in sorted(F.fns.items()):
        if not p.startswith("incan::backend::ir::lower") or "{closure" in p:
            continue
        reps = [bi for bi, t in f.calls() if (callee_generic(t) or "").endswith("Option::<T>::replace") or
                ((callee_generic(t) or "").endswith("::replace") and "Option" in t["f"].get("self", ""))]
        reps = [bi for bi in reps if _arg_is_field(f, f.term(bi), "current_impl_type")]
        if not reps:
            continue
        n += 1
        rep.functions.add(p)
        restores = []
        for bi, b in enumerate(f.blocks):
            if b.get("cleanup"):
                continue
            for s in b["st"]:
                if s["s"] == "assign":
                    fl = place_fields(s["d"])
                    if fl and fl[-1][2] == "current_impl_type":
                        restores.append((bi, s))
        pd = postdominators(f)
        ok = False
        for rb in reps:
            saved = f.term(rb)["d"]["l"] if not f.term(rb)["d"]["p"] else None
            for (bi, s) in restores:
                src = op_place(s["rv"]["o"]) if s["rv"]["r"] == "use" else None
                if bi in pd.get(rb, set()) and src is not None and saved is not None:
                    from engines import derived_locals
                    if src["l"] in derived_locals(f, saved):
                        ok = True
        short = p.split("::")[-1]
        rep.oblige("PAIR", short, ok, sample={"rule": "PAIR", "fn": p, "replace_sites": len(reps),
                                              "restore_sites": len(restores), "restored_on_every_exit": ok})
        if not ok:
            rep.add(Finding("PAIR", "PAIR|%s|current_impl_type" % short,
                            "%s sets current_impl_type but the assignment restoring the saved value does not "
                            "post-dominate it: after an early exit the inside-impl exemption leaks into later code "
                            "and T(x) there is left unchecked" % short, file=f.file, line=f.line, fn=p))
    rep.floor("PAIR", "functions setting current_impl_type", n, 1)


def _arg_is_field(f, t, field):
    a = op_place(t["args"][0]) if t["args"] else None
    if a is None:
        return False
    d = f.single_def(a["l"])
    if d and d[2] == "assign" and d[3]["r"] == "ref":
        fl = place_fields(d[3]["p"])
        return bool(fl) and fl[-1][2] == field
    return False


def imported(F, rep):
    writers = set()
    for p, f in F.fns.items():
        if f.crate != "incan":
            continue
        for bi, t in f.calls():
            g = callee_generic(t) or ""
            if g.split("::")[-1] in ("insert", "extend", "entry") and _arg_is_field(f, t, "newtype_checked_ctor"):
                writers.add(p)
    rep.floor("IMPORTED", "functions inserting into newtype_checked_ctor", len(writers), 1)
    own_only = all(p.endswith("AstLowering::lower_program") for p in writers)
    # does anything feed dependency modules into the lowering of the importing module?
    lp = F.one_fn("AstLowering::lower_program")
    ok = not own_only
    rep.oblige("IMPORTED", "registry-fed-from-imports", ok,
               sample={"rule": "IMPORTED", "writers": sorted(x.split("::")[-1] for x in writers)})
    if not ok:
        rep.add(Finding("IMPORTED", "IMPORTED|newtype_checked_ctor",
                        "the hook registry newtype_checked_ctor is written only by lower_program from the "
                        "declarations of the file being lowered; nothing registers the validated newtypes of "
                        "imported modules, so `Age(-5)` for an imported `Age` with from_underlying is emitted as the "
                        "raw tuple-struct literal and the invalid value is constructed",
                        file=lp.file if lp else None, line=lp.line if lp else None, fn=lp.path if lp else None))


def nominal(F, rep):
    import c03
    sub = Report("C17")
    c03.nominal(F, sub)
    keep = [f for f in sub.findings if "Named(" in f.key]
    n = len([1 for (_, i) in sub.nontrivial if "Named(" in i])
    rep.obligations += n
    rep.evaluations += n
    rep.discharged += n - len(keep)
    for (_, i) in sub.nontrivial:
        if "Named(" in i:
            rep.nontrivial.add(("NOMINAL", i))
    rep.samples += [dict(s, rule="NOMINAL") for s in sub.samples if "Named(" in str(s.get("cell", ""))][:4]
    rep.floor("NOMINAL", "nominal cells of types_compatible", n, 4)
    for f in keep:
        f.rule = "NOMINAL"
        rep.add(f)


def hooktable_first(F, rep):
    """HOOKFIRST - `newtype_checked_ctor` is read at every `T(x)` site while bodies are lowered, so it is complete
    before the first body is lowered: in lower_program no insertion into it is reachable from a call that can reach
    lower_expr (a construction site placed above the newtype's declaration would otherwise be emitted raw)."""
    from engines import callee_generic, callee_name, op_place
    f = F.one_fn("AstLowering::lower_program")
    if not rep.anchor("HOOKFIRST", "AstLowering::lower_program", f):
        return
    rep.functions.add(f.path)
    reader = F.one_fn("AstLowering>::lower_expr")
    if not rep.anchor("HOOKFIRST", "lower_expr", reader):
        return
    ins = []
    for bi, t in f.calls():
        if not (callee_generic(t) or "").endswith("::insert") or not t["args"]:
            continue
        pl = op_place(t["args"][0])
        root = pl
        for _ in range(4):
            if root is None:
                break
            if any(e[0] == "f" and e[3] == "newtype_checked_ctor" for e in root["p"]):
                ins.append(bi)
                break
            d = f.single_def(root["l"])
            if d and d[2] == "assign" and d[3]["r"] in ("ref", "cfd"):
                root = d[3]["p"]
            else:
                break
    if not rep.anchor("HOOKFIRST", "insert into newtype_checked_ctor in lower_program", ins):
        return
    lowering_calls = []
    for bi, t in f.calls():
        cn = callee_name(t)
        if cn and cn in F.fns and cn != f.path and F.fns[cn].crate == "incan":
            clo = F.closure([cn], pred=lambda p: F.fns[p].crate == "incan")
            if reader.path in clo:
                lowering_calls.append(bi)
    rep.floor("HOOKFIRST", "calls in lower_program that can reach lower_expr", len(lowering_calls), 3)
    late = [i for i in ins if any(i in f.reachable(c) - {c} for c in lowering_calls)]
    ok = not late
    rep.oblige("HOOKFIRST", "lower_program", ok, sample={"rule": "HOOKFIRST", "inserts": len(ins),
                                                         "lowering_calls": len(lowering_calls)})
    if not ok:
        rep.add(Finding("HOOKFIRST", "HOOKFIRST|lower_program",
                        "the validation-hook table is still being filled while bodies are lowered: `T(x)` written "
                        "above the declaration of the validated newtype T is lowered before T's hook is recorded and "
                        "is emitted as the raw tuple constructor", file=f.file, line=f.term(late[0]).get("ln"),
                        fn=f.path))
