"""C06 — compile-time evaluation agrees with run-time evaluation (DESIGN.md §4 C06).

Value equality for all const expressions is NOT decided. Decided structural clauses:
  1 SHAREDKERNEL  for concat / membership / index / slice, the const evaluator and the runtime wrapper the emitter
                  references reach the SAME incan_core::strings function, and runtime errors are built by the same
                  IncanError constructors (From<StringAccessError>)
  2 CYCLE         cycle-detection typestate of eval_const_by_name and resolve_static_str_const: the in-progress
                  test precedes, and the in-progress mark dominates, the recursive evaluation; the mark is cleared /
                  completed on every exit
  3 SAMELANG      every initializer form the evaluator can accept lowers to an IR form the emitter's const validator
                  can accept
  4 CONSTFN       every runtime helper the emitter can splice into a const initializer is a `const fn`
  5 OPERANDS      both operands of a binary const expression are evaluated on every path (no short-circuit that skips
                  the diagnostics of one side)
  6 RAWARITH      the const evaluator never folds `//`, `%`, `/`, `**` with Rust's native operators (truncation vs
                  floor); folding is only sound through the shared incan_core kernels
"""
from engines import (AST, IR, arm_regions, callee_generic, callee_name, discr_switches, op_place, postdominators,
                     primary_dispatch, quote_paths, reaches, region_outputs, short, all_string_constants)
from harness import Finding

CONFIGS = {"quick": ["default", "stdlib_web"], "thorough": ["default", "stdlib_web"]}

EXPLANATION = (
    "Static analysis of the const evaluator (frontend), const emission (backend) and the string helpers. (1) call "
    "graph: const_eval.rs calls incan_core::strings::{str_concat,str_contains,str_char_at,str_slice}; the "
    "incan_stdlib::strings wrappers named by the emitter's templates for the same operations call the same four "
    "functions, and their error path is IncanError::from(StringAccessError); (2) dominance/post-dominance on the "
    "cycle-detection state machine (InProgress test before, InProgress insert dominating, Done insert "
    "post-dominating the recursive evaluation; likewise visiting.insert/remove in the emitter's string folding); "
    "(3) per Expr variant: evaluator may-accept vs validate_const_expr_kind always-reject, mapped through the IR "
    "node each variant lowers to; (4) const-ness of every incan_stdlib helper that determine_binop_plan can select, "
    "read from the runtime crate's item table (rustc's is_const_fn). That the computed VALUE equals the run-time "
    "value for all expressions is not decided.")

KERNEL_PAIRS = [
    # (operation, incan_core kernel, stdlib wrapper the templates reference)
    ("concat", "incan_core::strings::str_concat", "incan_stdlib::strings::str_concat"),
    ("membership", "incan_core::strings::str_contains", "incan_stdlib::strings::str_contains"),
    ("index", "incan_core::strings::str_char_at", "incan_stdlib::strings::str_index"),
    ("slice", "incan_core::strings::str_slice", "incan_stdlib::strings::str_slice"),
]


def run(facts, rep, tier):
    F = facts["default"]
    from engines import eqop
    eqop(F, rep, ('src/frontend/typechecker/const_eval.rs', 'src/backend/ir/emit/consts.rs', 'src/backend/ir/emit/decls.rs', 'crates/incan_core/src/strings.rs', 'crates/incan_stdlib/src/frozen.rs', 'crates/incan_stdlib/src/strings.rs'))
    R = facts.get("stdlib_web") or F
    rep.assumptions += ["rustc nightly MIR and is_const_fn describe the program the stable toolchain builds"]
    sharedkernel(F, rep)
    rawarith(F, rep)
    twopass(F, rep)
    cycle(F, rep)
    samelang(F, rep)
    operands_evaluated(F, rep)
    constfn(F, R, rep)


def sharedkernel(F, rep):
    ce = [p for p in F.fns if p.startswith("incan::frontend::typechecker::const_eval")]
    rep.floor("SHAREDKERNEL", "functions of the const evaluator", len(ce), 8)
    rep.functions.update(ce)
    ce_calls = set()
    for p in ce:
        for _, t in F.fns[p].calls():
            n = callee_name(t)
            if n:
                ce_calls.add(n)
    template_paths = set()
    for p in F.fns:
        if p.startswith("incan::backend"):
            for segs, ln in quote_paths(F.fns[p]):
                template_paths.add("::".join(segs))
    for (op, kernel, wrapper) in KERNEL_PAIRS:
        a = kernel in ce_calls
        w = F.fn(wrapper)
        b = False
        via = []
        if w is not None:
            rep.functions.add(wrapper)
            via = [callee_name(t) or "" for _, t in w.calls()]
            b = kernel in via
        c = wrapper in template_paths
        # the wrapper is a pure delegation: the kernel call lies on EVERY path from entry to return
        every_path = False
        if w is not None and b:
            kb = [bi for bi, t in w.calls() if (callee_name(t) or "") == kernel]
            pd = postdominators(w)
            every_path = any(k in pd.get(0, set()) for k in kb)
            rep.oblige("SHAREDKERNEL", op + ":every-path-delegates", every_path,
                       sample={"rule": "SHAREDKERNEL", "wrapper": wrapper, "kernel_call_postdominates_entry":
                               every_path})
            if not every_path:
                rep.add(Finding("SHAREDKERNEL", "SHAREDKERNEL|%s|bypass" % op,
                                "%s has a path from entry to return that does not go through %s (a fast path or "
                                "special case in front of the delegation): for some arguments the run-time result is "
                                "computed by different code than the compile-time one" % (wrapper, kernel),
                                file=w.file, line=w.line, fn=wrapper))
        ok = a and b and c
        rep.oblige("SHAREDKERNEL", op, ok, sample={"rule": "SHAREDKERNEL", "operation": op, "kernel": kernel,
                                                   "const_evaluator_calls_it": a, "runtime_wrapper_calls_it": b,
                                                   "emitter_references_wrapper": c})
        if not ok:
            what = ("the const evaluator no longer calls %s" % kernel if not a else
                    "%s no longer delegates to %s (it calls %s)" % (wrapper, kernel, sorted(set(x.split('::')[-1]
                                                                                                for x in via))[:5])
                    if not b else "the emitter no longer references %s for this operation" % wrapper)
            rep.add(Finding("SHAREDKERNEL", "SHAREDKERNEL|%s" % op,
                            "string %s: %s — compile-time and run-time evaluation no longer share one "
                            "implementation and can drift apart" % (op, what),
                            file=w.file if w else None, line=w.line if w else None, fn=wrapper))
    # error mapping at run time: each StringAccessError variant the kernel can return is raised through the
    # canonical IncanError constructor (the same mapping as `impl From<StringAccessError> for IncanError`)
    from engines import enum_table
    want = {"IndexOutOfRange": "string_index_out_of_range", "SliceStepZero": "slice_step_zero"}
    relevant = {"incan_stdlib::strings::str_index": ["IndexOutOfRange"],
                "incan_stdlib::strings::str_slice": ["SliceStepZero", "IndexOutOfRange"]}
    for wrapper, variants in relevant.items():
        w = F.fn(wrapper)
        if not rep.anchor("SHAREDKERNEL", wrapper, w):
            continue
        _, tab = enum_table(w, "incan_core::strings::StringAccessError")
        for v in variants:
            callees = [c.split("::")[-1] for c in (tab or {}).get(v, ([], [], []))[2]]
            ok = want[v] in callees and "raise" in callees
            rep.oblige("SHAREDKERNEL", "errors:%s:%s" % (wrapper.split("::")[-1], v), ok,
                       sample={"rule": "SHAREDKERNEL", "wrapper": wrapper, "error": v, "raised_through": callees})
            if not ok:
                rep.add(Finding("SHAREDKERNEL", "SHAREDKERNEL|errors|%s|%s" % (wrapper.split("::")[-1], v),
                                "%s handles StringAccessError::%s through %s instead of raise(IncanError::%s()): "
                                "the run-time failure differs from the canonical one the compile-time evaluator "
                                "reports" % (wrapper, v, callees, want[v]), file=w.file, line=w.line, fn=wrapper))


DIV_METHODS = ("checked_div", "checked_rem", "wrapping_div", "wrapping_rem", "overflowing_div", "overflowing_rem",
               "div_euclid", "rem_euclid", "checked_div_euclid", "checked_rem_euclid", "wrapping_div_euclid",
               "wrapping_rem_euclid", "saturating_div", "powi", "powf", "pow", "checked_pow", "wrapping_pow")
PY_KERNELS = ("incan_core::py_floor_div_i64_impl", "incan_core::py_mod_i64_impl", "incan_core::py_mod_f64_impl",
              "incan_core::py_floor_div_f64_impl")


def raw_div_sites(f):
    """Sites in f that compute a quotient / remainder / power with Rust's native semantics."""
    out = []
    for b in f.blocks:
        for st in b["st"]:
            if st["s"] == "assign" and st["rv"]["r"] == "bin" and st["rv"]["op"] in ("Div", "Rem"):
                out.append((st["rv"]["op"], st.get("ln")))
    for bi, t in f.calls():
        g = callee_generic(t) or ""
        last = g.split("::")[-1].split("<")[0]
        if last in DIV_METHODS and ("core::num" in g or "f64" in g or "std::f64" in g):
            out.append((last, t.get("ln")))
    return out


def rawarith(F, rep):
    """RAWARITH — the const evaluator never folds `//`, `%`, `/` or `**` with Rust's native operators: Rust truncates
    toward zero and takes the sign of the dividend, Incan floors and takes the sign of the divisor, so a folded value
    would differ from the run-time one for operands of opposite sign. Folding is only sound through the shared
    kernels (incan_core::py_*_impl)."""
    ce = [p for p in F.fns if p.startswith("incan::frontend::typechecker::const_eval")]
    # detector self-check: the kernels themselves must show up as raw division sites
    seen = sum(len(raw_div_sites(F.fns[k])) for k in PY_KERNELS if k in F.fns)
    rep.floor("RAWARITH", "native Div/Rem sites found in the incan_core kernels (detector self-check)", seen, 3)
    n = 0
    for p in sorted(ce):
        f = F.fns[p]
        sites = raw_div_sites(f)
        n += 1
        ok = not sites
        rep.oblige("RAWARITH", fn_short(p), ok, sample={"rule": "RAWARITH", "fn": p, "native_div_sites": sites[:4]})
        for i, (what, ln) in enumerate(sites):
            rep.add(Finding("RAWARITH", "RAWARITH|%s|%s#%d" % (fn_short(p), what, i + 1),
                            "the const evaluator computes with Rust's native `%s` in %s: compile-time `//`, `%%` "
                            "follow truncation / sign-of-dividend while run time (py_floor_div / py_mod) floors and "
                            "follows the divisor — e.g. a const `-7 // 2` would be -3 at compile time and -4 at run "
                            "time" % (what, fn_short(p)), file=f.file, line=ln, fn=p))
    rep.floor("RAWARITH", "functions of the const evaluator", n, 8)


def twopass(F, rep):
    """TWOPASS — `&'static str` consts are folded by resolve_static_str_const(name, table, ..) against a table of all
    const initializers. The table must be COMPLETE before the first resolution: no insertion into that table may be
    reachable from a resolve call. (Resolving while still collecting leaves every forward reference unresolved; the
    dependent const is then emitted as a run-time str_concat call inside a const initializer.)"""
    from engines import derived_locals
    f = F.one_fn("IrEmitter<'a>>::emit_program") or F.one_fn("emit::program::<impl incan::backend::ir::emit::IrEmitter<'a>>::emit_program")
    if f is None:
        cands = [g for p, g in F.fns.items() if p.endswith("::emit_program") and "IrEmitter" in p]
        f = cands[0] if cands else None
    if not rep.anchor("TWOPASS", "IrEmitter::emit_program", f):
        return
    res = [(bi, t) for bi, t in f.calls() if (callee_name(t) or "").endswith("resolve_static_str_const")]
    if not rep.anchor("TWOPASS", "resolve_static_str_const call in emit_program", res):
        return

    def root(pl):
        cur = pl["l"]
        for _ in range(8):
            if cur in f.names:
                return cur
            d = f.single_def(cur)
            if d is None or d[2] != "assign":
                return cur
            rv = d[3]
            if rv["r"] in ("ref", "cfd"):
                cur = rv["p"]["l"]
            elif rv["r"] in ("use", "cast") and op_place(rv["o"]) is not None:
                cur = op_place(rv["o"])["l"]
            else:
                return cur
        return cur

    tables = {root(op_place(t["args"][1])) for bi, t in res if len(t["args"]) > 1 and op_place(t["args"][1])}
    ins = [(bi, t) for bi, t in f.calls() if (callee_generic(t) or "").endswith("::insert") and t["args"] and
           op_place(t["args"][0]) is not None and root(op_place(t["args"][0])) in tables]
    rep.floor("TWOPASS", "insertions into the table resolve_static_str_const reads", len(ins), 1)
    late = sorted({t2.get("ln") for (rb, _) in res for (ib, t2) in ins if ib in f.reachable(rb)})
    ok = not late
    rep.oblige("TWOPASS", "emit_program:collect-then-resolve", ok,
               sample={"rule": "TWOPASS", "resolve_calls": len(res), "table_inserts": len(ins),
                       "inserts_reachable_after_a_resolve": late})
    if not ok:
        rep.add(Finding("TWOPASS", "TWOPASS|emit_program|resolve-while-collecting",
                        "emit_program resolves `&'static str` consts while the table of const initializers is still "
                        "being filled (an insertion at line %s is reachable after a resolve call): a const that refers "
                        "to one declared later is not folded, and its dependents are emitted as run-time str_concat "
                        "calls inside a const initializer" % late[0], file=f.file, line=res[0][1].get("ln"), fn=f.path))


def fn_short(p):
    import panicinv
    return panicinv.fn_short(p)


def cycle(F, rep):
    f = F.one_fn("eval_const_by_name")
    if rep.anchor("CYCLE", "eval_const_by_name", f):
        rep.functions.add(f.path)
        rec = [bi for bi, t in f.calls() if (callee_name(t) or "").endswith("::eval_const_expr")]
        ins = []
        for bi, t in f.calls():
            if (callee_generic(t) or "").endswith("::insert") and "ConstEvalState" in t["f"].get("inst", ""):
                ins.append(bi)
        # which state does each insert store?
        states = {}
        for bi in ins:
            t = f.term(bi)
            for o in t["args"]:
                pl = op_place(o)
                if pl is None:
                    continue
                d = f.single_def(pl["l"])
                if d and d[2] == "assign" and d[3]["r"] == "agg" and d[3].get("adt", "").endswith("ConstEvalState"):
                    states[bi] = d[3]["variant"]
        inprog = [b for b, s in states.items() if s == "InProgress"]
        done = [b for b, s in states.items() if s == "Done"]
        sw = None
        for s in discr_switches(f):
            if s["adt"].endswith("ConstEvalState") and "InProgress" in s["explicit"]:
                sw = s
        if rep.anchor("CYCLE", "recursive eval_const_expr call", rec) and \
                rep.anchor("CYCLE", "insert(InProgress)", inprog) and rep.anchor("CYCLE", "insert(Done)", done) and \
                rep.anchor("CYCLE", "match on ConstEvalState", sw):
            dom = f.dominators()
            pdom = postdominators(f)
            r = rec[0]
            ok1 = any(b in dom.get(r, set()) for b in inprog)
            ok2 = any(b in pdom.get(r, set()) for b in done)
            ok3 = sw["block"] in dom.get(inprog[0], set())
            regs = arm_regions(f, sw)
            arm = regs.get("InProgress", set())
            pushes = [b for b in arm if f.term(b)["t"] == "call" and
                      (callee_generic(f.term(b)) or "").endswith("::push") and
                      "CompileError" in (f.term(b)["f"].get("inst", "") + f.term(b)["f"].get("self", ""))]
            rets = [bi for bi in range(len(f.blocks)) if f.term(bi)["t"] == "return"]
            entry = dict(sw["explicit"])["InProgress"]
            # every way out of the arm reports: no return is reachable from the arm's entry around the push
            ok4 = not any(b in arm for b in rec) and bool(pushes) and not reaches(f, entry, rets, avoid=set(pushes))
            for name, ok, msg in (
                    ("mark-dominates-recursion", ok1, "insert(InProgress) does not dominate the recursive evaluation"),
                    ("done-postdominates-recursion", ok2, "insert(Done) does not post-dominate the recursive "
                                                          "evaluation: a const can stay InProgress and later be "
                                                          "misreported as a cycle"),
                    ("test-before-mark", ok3, "the state test does not dominate the InProgress mark"),
                    ("cycle-arm-reports", ok4, "the InProgress arm does not push a diagnostic and stop (it recurses "
                                               "or stays silent): a const cycle loops or goes unreported")):
                rep.oblige("CYCLE", "eval_const_by_name:" + name, ok, sample={"rule": "CYCLE", "check": name,
                                                                              "holds": ok})
                if not ok:
                    rep.add(Finding("CYCLE", "CYCLE|eval_const_by_name|%s" % name, msg, file=f.file, line=f.line,
                                    fn=f.path))
    g = F.one_fn("resolve_static_str_const")
    if rep.anchor("CYCLE", "resolve_static_str_const", g):
        rep.functions.add(g.path)
        rec = [bi for bi, t in g.calls() if (callee_name(t) or "").endswith("eval_static_str_expr")]
        ins = [bi for bi, t in g.calls() if (callee_generic(t) or "").endswith("::insert") and
               "HashSet" in t["f"].get("self", "")]
        rem = [bi for bi, t in g.calls() if (callee_generic(t) or "").endswith("::remove") and
               "HashSet" in t["f"].get("self", "")]
        con = [bi for bi, t in g.calls() if (callee_generic(t) or "").endswith("::contains") and
               "HashSet" in t["f"].get("self", "")]
        if rep.anchor("CYCLE", "recursion/insert/remove/contains in resolve_static_str_const",
                      rec and ins and rem and con):
            dom = g.dominators()
            pdom = postdominators(g)
            r = rec[0]
            checks = (("visiting-test-first", any(c in dom.get(ins[0], set()) for c in con)),
                      ("mark-dominates-recursion", any(b in dom.get(r, set()) for b in ins)),
                      ("unmark-postdominates-recursion", any(b in pdom.get(r, set()) for b in rem)))
            for name, ok in checks:
                rep.oblige("CYCLE", "resolve_static_str_const:" + name, ok,
                           sample={"rule": "CYCLE", "check": name, "holds": ok})
                if not ok:
                    rep.add(Finding("CYCLE", "CYCLE|resolve_static_str_const|%s" % name,
                                    "the emitter's const-string folding lost its cycle protection (%s)" % name,
                                    file=g.file, line=g.line, fn=g.path))


def samelang(F, rep):
    ev = F.one_fn("eval_const_expr")
    va = F.one_fn("validate_const_expr_kind")
    le = F.one_fn("AstLowering>::lower_expr")
    if not (rep.anchor("SAMELANG", "eval_const_expr", ev) and rep.anchor("SAMELANG", "validate_const_expr_kind", va)
            and rep.anchor("SAMELANG", "lower_expr", le)):
        return
    rep.functions.update([ev.path, va.path, le.path])
    esw = primary_dispatch(ev, AST + "Expr")
    vsw = primary_dispatch(va, IR + "expr::IrExprKind")
    lsw = primary_dispatch(le, AST + "Expr")
    if not rep.anchor("SAMELANG", "main matches", esw and vsw and lsw):
        return
    eregs = arm_regions(ev, esw)
    vregs = arm_regions(va, vsw)
    lregs = arm_regions(le, lsw)

    def evaluator_rejects(v):
        blocks = eregs.get(v, set())
        # always pushes an error and never builds Some(..)
        pushes = any(ev.term(b)["t"] == "call" and (callee_generic(ev.term(b)) or "").endswith("::push")
                     for b in blocks)
        somes = any(s["s"] == "assign" and s["rv"]["r"] == "agg" and s["rv"].get("variant") == "Some"
                    for b in blocks for s in ev.stmts(b))
        rec = any(ev.term(b)["t"] == "call" and (callee_name(ev.term(b)) or "").endswith("eval_const")
                  for b in blocks)
        calls = any(ev.term(b)["t"] == "call" and ((callee_name(ev.term(b)) or "").endswith("::eval_const_expr") or
                                                    (callee_name(ev.term(b)) or "").endswith("::eval_const_literal")
                                                    or (callee_name(ev.term(b)) or "").endswith("eval_const_by_name"))
                    for b in blocks)
        return pushes and not somes and not calls

    def validator_rejects(k):
        if k not in vsw["explicit"]:
            blocks = vregs.get("_", set())
        else:
            blocks = vregs.get(k, set())
        oks = any(s["s"] == "assign" and s["rv"]["r"] == "agg" and s["rv"].get("variant") == "Ok"
                  for b in blocks for s in va.stmts(b))
        rec = any(va.term(b)["t"] == "call" and (callee_name(va.term(b)) or "").endswith("validate_const_expr_kind")
                  for b in blocks)
        # a call whose result is itself a Result (try_for_each over the elements, a helper validating the children)
        # can succeed: the arm is not an unconditional refusal
        delegated = any(va.term(b)["t"] == "call" and not va.term(b)["d"]["p"] and
                        va.local_ty(va.term(b)["d"]["l"]).startswith("core::result::Result<")
                        for b in blocks)
        errs = any(s["s"] == "assign" and s["rv"]["r"] == "agg" and s["rv"].get("variant") == "Err"
                   for b in blocks for s in va.stmts(b))
        return errs and not oks and not rec and not delegated

    n = 0
    for v in [x["name"] for x in F.adts[AST + "Expr"]["variants"]]:
        if evaluator_rejects(v):
            rep.oblige("SAMELANG", "Expr::%s" % v, True)
            continue
        kinds = sorted({a[1] for a in region_outputs(le, lregs.get(v, set()))[1] if a[0] == IR + "expr::IrExprKind"})
        if not kinds:
            rep.oblige("SAMELANG", "Expr::%s" % v, True, nontrivial=False)
            continue
        n += 1
        bad = [k for k in kinds if validator_rejects(k)]
        # an arm may build several kinds (helper calls, wrappers); it is refused only if ALL of them are
        ok = len(bad) < len(kinds)
        rep.oblige("SAMELANG", "Expr::%s" % v, ok, sample={"rule": "SAMELANG", "initializer_form": v,
                                                           "lowers_to": kinds, "emitter_refuses": bad})
        if not ok:
            rep.add(Finding("SAMELANG", "SAMELANG|Expr::%s" % v,
                            "the const evaluator accepts (and computes) Expr::%s initializers, but they lower to %s, "
                            "which the emitter's const validator always refuses: `--check` passes and the build "
                            "stops with `not allowed in const initializers`" % (v, kinds),
                            file=va.file, line=vsw["ln"], fn=va.path))
    rep.floor("SAMELANG", "initializer forms the evaluator can accept", n, 8)


def operands_evaluated(F, rep):
    """A const binary expression yields a value only after BOTH operands were evaluated (each operand can hold a
    cycle edge or a non-const name that must be diagnosed)."""
    ev = F.one_fn("eval_const_expr")
    if ev is None:
        return
    sw = primary_dispatch(ev, AST + "Expr")
    regs = arm_regions(ev, sw) if sw else {}
    for v, arity in (("Binary", 2), ("Index", 2), ("Unary", 1)):
        arm = regs.get(v)
        if not rep.anchor("OPERANDS", "Expr::%s arm of eval_const_expr" % v, arm):
            continue
        rec = sorted(b for b in arm if ev.term(b)["t"] == "call" and
                     (callee_name(ev.term(b)) or "").endswith("::eval_const_expr"))
        rep.floor("OPERANDS", "recursive evaluations in the %s arm" % v, len(rec), arity)
        somes = [b for b in arm for s in ev.stmts(b)
                 if s["s"] == "assign" and s["rv"]["r"] == "agg" and s["rv"].get("variant") == "Some"
                 and s["rv"].get("adt", "").endswith("option::Option")]
        tgt = sw["explicit"][v]
        # the first `arity` recursive calls in block order are the operand evaluations
        for i, r in enumerate(rec[:arity]):
            reach = ev.reachable(tgt, avoid={r})
            bad = [b for b in somes if b in reach]
            ok = not bad
            rep.oblige("OPERANDS", "%s:operand#%d" % (v, i + 1), ok,
                       sample={"rule": "OPERANDS", "form": v, "operand": i + 1, "value_without_evaluating_it": not ok})
            if not ok:
                rep.add(Finding("OPERANDS", "OPERANDS|eval_const_expr|%s#%d" % (v, i + 1),
                                "the const evaluator can produce a value for an Expr::%s without evaluating its "
                                "operand #%d (short-circuit / fast path): a dependency cycle or a non-const name in "
                                "that operand is never diagnosed, and the const's value is decided differently from "
                                "the run-time expression" % (v, i + 1), file=ev.file, line=sw["ln"], fn=ev.path))


def constfn(F, R, rep):
    plan = F.one_fn("conversions::determine_binop_plan")
    va = F.one_fn("validate_const_expr_kind")
    if not (rep.anchor("CONSTFN", "determine_binop_plan", plan) and rep.anchor("CONSTFN", "validate_const_expr_kind",
                                                                             va)):
        return
    vsw = primary_dispatch(va, IR + "expr::IrExprKind")
    binop_allowed = vsw is not None and "BinOp" in vsw["explicit"]
    rep.oblige("CONSTFN", "validator-admits-BinOp", True, sample={"rule": "CONSTFN", "const_validator_admits_BinOp":
                                                                  binop_allowed})
    if not binop_allowed:
        return
    from engines import same_file_family
    helpers = sorted({"::".join(segs) for q in same_file_family(F, plan) for segs, ln in quote_paths(F.fns[q])
                      if segs[0] == "incan_stdlib"})
    rep.floor("CONSTFN", "runtime helpers determine_binop_plan can select", len(helpers), 10)
    for h in helpers:
        item = R.items.get(h) or F.items.get(h)
        is_const = bool(item and item.get("const"))
        # string concatenation of literals is folded to concat!() before the helper is reached
        folded = h.endswith("::str_concat")
        inst = "helper:" + h
        if folded:
            rep.oblige("CONSTFN", inst, True)
            rep.exempt("CONSTFN", inst, "`&'static str` additions in consts are folded to concat!(..) by "
                                        "try_emit_static_str_add before the helper is selected")
            continue
        rep.oblige("CONSTFN", inst, is_const, sample={"rule": "CONSTFN", "helper": h, "const_fn": is_const})
        if not is_const:
            rep.add(Finding("CONSTFN", "CONSTFN|%s" % h,
                            "the emitter's const validator admits binary operators, and for this operator the plan "
                            "splices a call to %s, which is not a `const fn`: `const N: int = 7 // 2` passes the "
                            "checker (which even knows its type) and rustc rejects it with E0015" % h,
                            file=plan.file, line=plan.line, fn=plan.path))
