"""C05 — indexing, slicing and range follow Python for every argument (DESIGN.md §4 C05).

Element-wise equality with Python for all sequences needs a loop invariant over the slice algorithm and is NOT
decided. Decided structural clauses (each a necessary condition):
  1 GUARD     step == 0 is tested, with an erroring/diverging true edge, before any loop of str_slice / list_slice
              and before PyRange is built; out-of-range tests dominate every element access
  2 ERRKIND   each failure goes through the documented exception constructor (IndexError / ValueError / KeyError
              with the documented text constants)
  3 OVERFLOW  every i64 Add/Sub/Mul in the index/slice/range kernels is classified overflow-safe (operands of
              opposite sign, or len - 1) — anything else can wrap in the release profile generated programs use
  4 SLICETOK  the slice parser handles the `::` token the lexer produces for `s[::2]`
  5 SIBLING   str_slice and list_slice normalise bounds identically (same comparisons, clamps, defaults)
"""
from engines import (all_string_constants, enum_table, fmt_pieces, fn_fmt_templates, blocks_dominated_by_edge, body_and_closures, callee_generic,
                     callee_name, derived_locals, discr_switches, iter_operands_rv, op_place)
from facts import iter_read_places
from harness import Finding

EXPLANATION = (
    "Static analysis of the index/slice/range kernels' MIR (incan_core::strings, incan_stdlib::{collections,iter}) "
    "and of the slice parser. Decided: (1) dominance: the `step == 0` test's true edge errs/diverges and its false "
    "edge dominates every loop and the PyRange construction; the out-of-range test dominates every element access "
    "and normalize_index builds Some(i) only under 0 <= i < len; (2) each failure reaches the documented exception "
    "constructor, whose kind/text constants are compared with the documented messages; (3) every i64 Add/Sub/Mul "
    "in the kernels is classified by a sign/bound argument — `i += len` under `i < 0`, `len - 1` are safe, "
    "`i += step` with an unbounded same-signed step is not; (4) the slice parser's closure mentions the "
    "PunctuationId::ColonColon token the lexer emits for `::`; (5) the two slice implementations use the same "
    "comparison/clamp/default constants. That the produced elements equal Python's for all sequences is not "
    "decided.")

KERNEL_FNS = [
    "incan_core::strings::normalize_index", "incan_core::strings::str_char_at", "incan_core::strings::str_slice",
    "incan_stdlib::collections::list_get", "incan_stdlib::collections::list_get_mut",
    "incan_stdlib::collections::list_slice", "<incan_stdlib::iter::PyRange as core::iter::traits::iterator::Iterator>::next",
    "incan_stdlib::iter::range",
]


def bool_switch_edges(f, local):
    """(false_edges, true_edges) of switches on boolean `local` (or copies)."""
    locs = derived_locals(f, local)
    fe, te = [], []
    for bi, b in enumerate(f.blocks):
        t = b["term"]
        if t["t"] != "switch" or t["ty"] != "bool":
            continue
        p = op_place(t["on"])
        if p is None or p["p"] or p["l"] not in locs:
            continue
        for v, tg in t["targets"]:
            if v == "0":
                fe.append((bi, tg))
        te.append((bi, t["otherwise"]))
    return fe, te


def cmp_sites(f, op, const=None, lhs_name=None):
    """Statements `_x = op(a, b)`; -> list of (block, dest local, a-name, b-name/const)."""
    out = []
    for bi, b in enumerate(f.blocks):
        for s in b["st"]:
            if s["s"] != "assign" or s["rv"]["r"] != "bin" or s["rv"]["op"] != op or s["d"]["p"]:
                continue
            a, bb = s["rv"]["a"], s["rv"]["b"]
            an = operand_name(f, a)
            bn = operand_name(f, bb)
            if const is not None and bn != const:
                continue
            if lhs_name is not None and an != lhs_name:
                continue
            out.append((bi, s["d"]["l"], an, bn, s.get("ln")))
    return out


def operand_name(f, o, depth=6):
    """User-level name of an operand: debug name of the local it copies, 'self.field', or the constant text."""
    if "c" in o:
        return o["c"].split("_")[0]
    pl = op_place(o)
    if pl is None:
        return "?"
    cur = pl
    for _ in range(depth):
        if cur["p"]:
            flds = [e[3] for e in cur["p"] if e[0] == "f"]
            base = f.names.get(cur["l"], "_%d" % cur["l"])
            return base + "".join("." + x for x in flds)
        if cur["l"] in f.names:
            return f.names[cur["l"]]
        d = f.single_def(cur["l"])
        if d is None or d[2] != "assign":
            break
        rv = d[3]
        if rv["r"] in ("use", "cast"):
            if "c" in rv["o"]:
                return rv["o"]["c"].split("_")[0]
            cur = op_place(rv["o"])
        elif rv["r"] in ("ref", "cfd"):
            cur = rv["p"]
        elif rv["r"] == "bin" and depth > 1:
            sym = {"Add": "+", "Sub": "-", "Mul": "*"}.get(rv["op"], rv["op"])
            return "(%s%s%s)" % (operand_name(f, rv["a"], depth - 1), sym, operand_name(f, rv["b"], depth - 1))
        elif rv["r"] == "un" and rv["op"] == "Neg":
            return "-" + operand_name(f, rv["o"], depth - 1)
        else:
            break
    return "_tmp"


def run(facts, rep, tier):
    F = facts["default"]
    rep.assumptions += [
        "generated programs are built with the release profile (no overflow checks): i64 arithmetic wraps",
        "list/str lengths are at most isize::MAX, so `len as i64` is non-negative",
    ]
    fns = {}
    for n in KERNEL_FNS:
        f = F.fn(n)
        if rep.anchor("GUARD", n, f):
            fns[n] = f
            rep.functions.add(n)
    # the semantic engines first: a kernel they decide completely (no undecided leaf) needs no structural fallback
    decided = indexmap(F, rep)
    decided.update(slicemap(F, rep))
    rangemap(F, rep)
    # crate-local helpers the kernels delegate to belong to the kernels (bounds normalisation moved into a helper ...)
    for n, f in list(fns.items()):
        for q in F.closure([f.path], pred=lambda x: F.fns[x].crate == f.crate and "{" not in x.split("::")[-1]):
            if q not in fns and q != f.path and len(F.fns[q].blocks) < 80 and "errors" not in q:
                fns[q] = F.fns[q]
    guard(F, rep, fns, decided)
    errkind(F, rep)
    overflow(F, rep, fns)
    slicetok(F, rep)
    # SIBLING (comparison of the two slice kernels' operation multisets) is no longer an armed rule: it is syntactic and
    # alarmed on behaviour-preserving refactorings of one kernel (DESIGN.md §6.3). Agreement of the kernels is decided
    # semantically: SLICEMAP holds both against the same definition. The comparison is kept as a note in the evidence.
    sibling_note(F, rep, fns)


INDEX_KERNELS = (
    # function, position of the index argument, position of the length argument (None: taken from the container), kind
    ("incan_stdlib::collections::list_get", 2, None, "access"),
    ("incan_stdlib::collections::list_get_mut", 2, None, "access"),
    ("incan_core::strings::normalize_index", 2, 1, "option"),
)


def indexmap(F, rep):
    """INDEXMAP — the index-normalisation kernels map EVERY index to what Python's definition says, decided over the
    whole (idx, len) plane by relational abstract interpretation (rules/idxeval.py): idx < -len and idx >= len are out
    of range; -len <= idx < 0 selects element idx + len; 0 <= idx < len selects element idx. A leaf is reported only
    when the engine can state the region and the wrong outcome exactly; paths through operations it has no transfer
    function for are counted as undecided and never reported."""
    import idxeval
    decided = {}
    for name, ia, la, kind in INDEX_KERNELS:
        f = F.fn(name)
        if not rep.anchor("INDEXMAP", name, f):
            continue
        rep.functions.add(f.path)
        short = name.split("::")[-1]
        n, viol, undec = idxeval.check_kernel(F, f, ia, la, kind)
        rep.oblige("INDEXMAP", short, not viol, sample={"rule": "INDEXMAP", "kernel": name, "leaf_regions": n,
                                                        "undecided": undec, "violations": viol[:3]})
        seen = set()
        for v in viol:
            key = "INDEXMAP|%s|%s" % (short, v["region"])
            if key in seen:
                continue
            seen.add(key)
            w = v.get("witness") or {}
            rep.add(Finding("INDEXMAP", key,
                            "%s: for %s the kernel yields %s, Python's definition says %s (e.g. idx=%s on a "
                            "container of length %s)" % (short, v["region"], v["got"], v["expected"], w.get("idx"),
                                                         w.get("len")), file=f.file, line=f.line, fn=f.path))
        decided[short] = (undec == 0 and n > 0 and not viol)
        if undec:
            rep.notes.append("INDEXMAP %s: %d of %d leaf regions undecided (%s)" % (
                short, undec, n, "; ".join(getattr(idxeval.check_kernel, "reasons", [])[:3])))
    return decided


def rangemap(F, rep):
    """RANGEMAP — `PyRange::next` yields `cur` exactly while it is before `end` in the direction of `step`, and then
    advances by `step` (Python's range): decided over the whole (cur, end, step) space by IDXEVAL."""
    import idxeval
    cands = [g for p, g in F.fns.items() if p.startswith("<incan_stdlib::iter::PyRange as") and p.endswith("::next")]
    if not rep.anchor("RANGEMAP", "<PyRange as Iterator>::next", cands):
        return
    f = cands[0]
    rep.functions.add(f.path)
    n, viol, undec = idxeval.check_range_next(F, f)
    rep.oblige("RANGEMAP", "PyRange::next", not viol, sample={"rule": "RANGEMAP", "leaf_regions": n, "undecided": undec,
                                                             "violations": viol[:2]})
    seen = set()
    for v in viol:
        key = "RANGEMAP|PyRange::next|%s" % v["case"]
        if key in seen:
            continue
        seen.add(key)
        w = v["witness"]
        rep.add(Finding("RANGEMAP", key, "PyRange::next, case [%s]: %s (e.g. cur=%s end=%s step=%s)"
                        % (v["case"], v["what"], w["cur"], w["end"], w["step"]), file=f.file, line=f.line, fn=f.path))
    if undec:
        rep.notes.append("RANGEMAP: %d of %d leaf regions undecided (%s)" % (
            undec, n, "; ".join(getattr(idxeval.check_range_next, "reasons", [])[:3])))


SLICE_KERNELS = (
    # function, positions of start / end / step
    ("incan_core::strings::str_slice", 2, 3, 4),
    ("incan_stdlib::collections::list_slice", 2, 3, 4),
)


def slicemap(F, rep):
    """SLICEMAP — the slice kernels follow Python's `slice.indices(len)` for EVERY start / end / step / len: for each
    combination of omitted / given bounds and each region of their values (below -len, negative, inside, beyond the
    end) the first two positions the kernel takes, and the condition under which it takes them, equal
    start', start'+step while (start' + k*step) is before end' — decided by relational abstract interpretation over the
    (start, end, step, len) space (rules/idxeval.py). The loop body is the same code in every iteration, so what holds
    for the symbolic first two iterations is the induction step of the whole loop."""
    import idxeval
    decided = {}
    for name, a, b, c in SLICE_KERNELS:
        f = F.fn(name)
        if not rep.anchor("SLICEMAP", name, f):
            continue
        rep.functions.add(f.path)
        short = name.split("::")[-1]
        n, viol, undec = idxeval.check_slice_kernel(F, f, a, b, c)
        rep.oblige("SLICEMAP", short, not viol, sample={"rule": "SLICEMAP", "kernel": name, "leaf_regions": n,
                                                        "undecided": undec, "violations": viol[:2]})
        seen = set()
        for v in viol:
            key = "SLICEMAP|%s|%s" % (short, v["case"])
            if key in seen:
                continue
            seen.add(key)
            w = v["witness"]
            rep.add(Finding("SLICEMAP", key,
                            "%s, case [%s]: %s (e.g. start=%s end=%s step=%s on a container of length %s)"
                            % (short, v["case"], v["what"], w["start"], w["end"], w["step"], w["len"]),
                            file=f.file, line=f.line, fn=f.path))
        decided[short] = (undec == 0 and n > 0 and not viol)
        if undec:
            rep.notes.append("SLICEMAP %s: %d of %d leaf regions undecided (%s)" % (
                short, undec, n, "; ".join(getattr(idxeval.check_slice_kernel, "reasons", [])[:3])))
    return decided


# ---------------------------------------------------------------------------------------------------------------
def guard(F, rep, fns, decided=None):
    decided = decided or {}
    # step == 0 before loops / construction
    for n, kind in (("incan_core::strings::str_slice", "err"), ("incan_stdlib::collections::list_slice", "raise"),
                    ("incan_stdlib::iter::range", "raise")):
        f = fns.get(n)
        if f is None:
            continue
        short = n.split("::")[-1]
        tests = cmp_sites(f, "Eq", const="0", lhs_name="step")
        if not rep.anchor("GUARD", "%s: `step == 0` test" % short, tests):
            continue
        ok_any = False
        for (bi, dl, an, bn, ln) in tests:
            fe, te = bool_switch_edges(f, dl)
            true_dom = set()
            for (a, b) in te:
                true_dom |= blocks_dominated_by_edge(f, a, b)
            false_dom = set()
            for (a, b) in fe:
                false_dom |= blocks_dominated_by_edge(f, a, b)
            # true side: error / diverge
            errs = False
            for b in true_dom:
                t = f.term(b)
                if t["t"] == "call":
                    cn = callee_name(t) or ""
                    if cn.endswith("errors::raise") or "step_zero" in cn:
                        errs = True
                for s in f.stmts(b):
                    if s["s"] == "assign" and s["rv"]["r"] == "agg" and s["rv"].get("variant") == "SliceStepZero":
                        errs = True
            # false side dominates every later use of the tested value: arithmetic, comparisons, calls it is passed to,
            # closures that capture it, aggregates (PyRange) built from it
            tested = set()
            for st0 in f.stmts(bi):
                if st0["s"] == "assign" and not st0["d"]["p"] and st0["d"]["l"] == dl and st0["rv"]["r"] == "bin":
                    pl0 = op_place(st0["rv"]["a"])
                    if pl0 is not None:
                        root = pl0["l"]
                        for _ in range(6):
                            d0 = f.single_def(root)
                            if root in f.names or d0 is None or d0[2] != "assign" or d0[3]["r"] not in ("use", "cast"):
                                break
                            p1 = op_place(d0[3]["o"])
                            if p1 is None or p1["p"]:
                                break
                            root = p1["l"]
                        tested = derived_locals(f, root) | {root}
            uses = []
            for b2, si2, pl2, how2 in iter_read_places(f):
                if b2 == bi or how2 in ("write", "ref_fake"):
                    continue
                if pl2["l"] in tested:
                    uses.append(b2)
            dominated = all(u in false_dom for u in uses)
            if errs and uses and dominated:
                ok_any = True
        rep.oblige("GUARD", "%s:step-zero" % short, ok_any,
                   sample={"rule": "GUARD", "fn": n, "test": "step == 0", "holds": ok_any})
        if not ok_any:
            rep.add(Finding("GUARD", "GUARD|%s|step-zero" % short,
                            "in %s the `step == 0` test does not both fail on its true edge and dominate every use "
                            "of `step` in the loops / the PyRange construction: a zero step can reach the loop "
                            "(non-termination) or the iterator" % short, file=f.file, line=f.line, fn=f.path))
    # bounds before element access
    for n in ("incan_stdlib::collections::list_get", "incan_stdlib::collections::list_get_mut"):
        f = fns.get(n)
        if f is None:
            continue
        short = n.split("::")[-1]
        accesses = [bi for bi, b in enumerate(f.blocks)
                    if (b["term"]["t"] == "assert" and b["term"]["msg"] == "bounds") or
                    (b["term"]["t"] == "call" and (callee_generic(b["term"]) or "").endswith("Index::index")) or
                    (b["term"]["t"] == "call" and (callee_generic(b["term"]) or "").endswith("IndexMut::index_mut"))]
        if decided.get(short):
            rep.oblige("GUARD", "%s:bounds" % short, True,
                       sample={"rule": "GUARD", "fn": n, "discharged_by": "INDEXMAP decides every (idx, len) region"})
            continue
        if not rep.anchor("GUARD", "%s: element access" % short, accesses):
            continue
        ok, how = range_guarded(F, f, accesses)
        if not ok:
            # the normalisation may live in a helper whose result is the index: then the helper's returns are the
            # points that must only be reached in range
            for bi, t in f.calls():
                cn = callee_name(t) or ""
                h = F.fns.get(cn)
                if h is None or h.crate != f.crate or "i64" not in " ".join(
                        h.local_ty(l) for l in range(1, h.argc + 1)):
                    continue
                if not all(a in f.reachable(bi) for a in accesses):
                    continue
                rets = [b2 for b2, blk in enumerate(h.blocks) if blk["term"]["t"] == "return"]
                ok, how = range_guarded(F, h, rets)
                how = "%s (in helper %s)" % (how, cn.split("::")[-1])
                rep.functions.add(cn)
                if ok:
                    break
        rep.oblige("GUARD", "%s:bounds" % short, ok, sample={"rule": "GUARD", "fn": n, "accesses": len(accesses),
                                                             "tests": how, "holds": ok})
        if not ok:
            rep.add(Finding("GUARD", "GUARD|%s|bounds" % short,
                            "the element access in %s is not dominated by range tests of the index (`< len` on "
                            "every path and, for a signed index, `>= 0` as well): an out-of-range index can reach "
                            "the raw slice index (Rust panic instead of IndexError, or a wrong element); %s"
                            % (short, how), file=f.file, line=f.line, fn=f.path))
    f = fns.get("incan_core::strings::normalize_index")
    if f is not None:
        somes = [bi for bi, b in enumerate(f.blocks) for s in b["st"]
                 if s["s"] == "assign" and s["rv"]["r"] == "agg" and s["rv"].get("variant") == "Some"]
        lt = cmp_sites(f, "Lt", const="0")
        ge = cmp_sites(f, "Ge")
        ok = bool(somes) and bool(lt) and bool(ge)
        if ok:
            last_lt = max(lt, key=lambda x: x[0])
            fl, fg = set(), set()
            for (a, b) in bool_switch_edges(f, last_lt[1])[0]:
                fl |= blocks_dominated_by_edge(f, a, b)
            for (bi, dl, an, bn, ln) in ge:
                for (a, b) in bool_switch_edges(f, dl)[0]:
                    fg |= blocks_dominated_by_edge(f, a, b)
            ok = all(s in fl and s in fg for s in somes)
        rep.oblige("GUARD", "normalize_index:Some-only-in-range", ok,
                   sample={"rule": "GUARD", "fn": f.path, "holds": ok})
        if not ok:
            rep.add(Finding("GUARD", "GUARD|normalize_index|Some-in-range",
                            "normalize_index can return Some(i) on a path where `i < 0` or `i >= len` was not "
                            "refuted", file=f.file, line=f.line, fn=f.path))
    f = fns.get("incan_core::strings::str_char_at")
    if f is not None:
        calls = [callee_name(t) or "" for _, t in f.calls()]
        ok = any(c.endswith("normalize_index") for c in calls)
        errs = [s["rv"]["variant"] for b in f.blocks for s in b["st"]
                if s["s"] == "assign" and s["rv"]["r"] == "agg" and s["rv"].get("adt", "").endswith("StringAccessError")]
        ok = ok and errs == ["IndexOutOfRange"]
        rep.oblige("GUARD", "str_char_at:normalize+IndexOutOfRange", ok,
                   sample={"rule": "GUARD", "fn": f.path, "errors": errs, "holds": ok})
        if not ok:
            rep.add(Finding("GUARD", "GUARD|str_char_at|normalize",
                            "str_char_at no longer normalises the index through normalize_index with "
                            "StringAccessError::IndexOutOfRange on failure (errors built: %s)" % errs,
                            file=f.file, line=f.line, fn=f.path))


def is_len_like(name):
    return name in LEN_NAMES or name.startswith("len") or name.endswith(".len")


def range_guarded(F, g, exits):
    """Every path from the entry of g to a block of `exits` crosses the in-range edge of an upper-bound test against
    the length, and — when the tested value is signed — the in-range edge of a lower-bound test against 0; and g can
    raise.  -> (ok, description)"""
    import panicinv as P
    upper, lower, signed = [], [], False
    for op, side in (("Ge", "false"), ("Gt", "false"), ("Lt", "true"), ("Le", "true")):
        for (bi, dl, an, bn, ln) in cmp_sites(g, op):
            fe, te = bool_switch_edges(g, dl)
            if is_len_like(bn) and not is_len_like(an) and op in ("Ge", "Lt"):
                upper += fe if side == "false" else te
                ty = cmp_operand_ty(g, bi, dl)
                signed = signed or ty.startswith("i")
            elif is_len_like(an) and not is_len_like(bn) and op in ("Gt", "Le"):
                # len > x  /  len <= x
                upper += te if op == "Gt" else fe
                ty = cmp_operand_ty(g, bi, dl, second=True)
                signed = signed or ty.startswith("i")
            elif bn == "0" and op in ("Lt", "Ge"):
                lower += fe if op == "Lt" else te
    raises = any((callee_name(t) or "").endswith("errors::raise") for _, t in g.calls()) or any(
        s["s"] == "assign" and s["rv"]["r"] == "agg" and s["rv"].get("variant") in ("Err", "None")
        for b in g.blocks for s in b["st"])
    if not upper:
        return False, "no `index < len` test found"
    if not raises:
        return False, "no failure path"
    up_ok = all(P.dominated(g, e, upper) for e in exits)
    lo_ok = (not signed) or (bool(lower) and all(P.dominated(g, e, lower) for e in exits))
    desc = "upper-bound test dominates: %s; index is %s%s" % (
        up_ok, "signed" if signed else "unsigned", ("; lower-bound test dominates: %s" % lo_ok) if signed else "")
    return up_ok and lo_ok, desc


def cmp_operand_ty(g, bi, dl, second=False):
    for s in g.blocks[bi]["st"]:
        if s["s"] == "assign" and not s["d"]["p"] and s["d"]["l"] == dl and s["rv"]["r"] == "bin":
            o = s["rv"]["b" if second else "a"]
            pl = op_place(o)
            if pl is not None and not pl["p"]:
                return g.local_ty(pl["l"])
            return o.get("ty", "")
    return ""


# ---------------------------------------------------------------------------------------------------------------
DOCUMENTED = {
    # constructor suffix: (ErrorKind, text fragments that must appear)
    "index_out_of_range_for": ("IndexError", ["index ", " out of range for ", " of length "]),
    "string_index_out_of_range": ("IndexError", ["string index out of range"]),
    "slice_step_zero": ("ValueError", ["slice step cannot be zero"]),
    "range_step_zero": ("ValueError", ["range() arg 3 must not be zero"]),
    "zero_division": ("ZeroDivisionError", ["float division by zero"]),
}

USES = [
    # (function, constructor it must reach on its failure path)
    ("incan_stdlib::collections::list_get", "index_out_of_range_for"),
    ("incan_stdlib::collections::list_get_mut", "index_out_of_range_for"),
    ("incan_stdlib::collections::list_slice", "slice_step_zero"),
    ("incan_stdlib::iter::range", "range_step_zero"),
    ("incan_stdlib::collections::dict_get", "key_not_found_in_dict"),
]


def errkind(F, rep):
    for suf, (kind, frags) in sorted(DOCUMENTED.items()):
        cands = [f for p, f in F.fns.items() if p.split("::")[-1] == suf and "IncanError" in p]
        if not rep.anchor("ERRKIND", "IncanError::" + suf, cands):
            continue
        f = cands[0]
        rep.functions.add(f.path)
        kinds = [s["rv"]["variant"] for b in f.blocks for s in b["st"]
                 if s["s"] == "assign" and s["rv"]["r"] == "agg" and s["rv"].get("adt", "").endswith("ErrorKind")]
        strs = [v for _, v in all_string_constants(f)] + fn_fmt_templates(f)
        # structured arguments are rendered by IncanError's Display: take the arm of the ErrorArgs variant built
        argv = [s["rv"]["variant"] for b in f.blocks for s in b["st"]
                if s["s"] == "assign" and s["rv"]["r"] == "agg" and s["rv"].get("adt", "").endswith("ErrorArgs")]
        disp = [g for p, g in F.fns.items() if p.startswith("<incan_core::errors::IncanError") and
                p.endswith("Display>::fmt")]
        if disp and argv and argv[0] not in ("Static", "Message"):
            _, tab = enum_table(disp[0], "incan_core::errors::ErrorArgs")
            for c, ty in (tab or {}).get(argv[0], ([], [], []))[0]:
                pcs = fmt_pieces(c)
                if pcs:
                    strs.append("".join(pcs))
        txt_ok = all(any(fr in s for s in strs) for fr in frags)
        ok = kinds == [kind] and txt_ok
        rep.oblige("ERRKIND", suf, ok, sample={"rule": "ERRKIND", "constructor": f.path, "kind": kinds,
                                               "strings": strs[:4], "documented": "%s: %s" % (kind, "…".join(frags))})
        if not ok:
            rep.add(Finding("ERRKIND", "ERRKIND|%s" % suf,
                            "%s builds kind %s with text %s; documented: %s with %s"
                            % (f.path, kinds, strs[:4], kind, frags), file=f.file, line=f.line, fn=f.path))
    for fn, ctor in USES:
        f = F.fn(fn)
        if not rep.anchor("ERRKIND", fn, f):
            continue
        own = F.closure([f.path], pred=lambda q: F.fns[q].crate == f.crate)
        calls = [callee_name(t) or "" for p in own for _, t in F.fns[p].calls()]
        ok = any(c.split("::")[-1].split("<")[0] == ctor for c in calls) and \
            any(c.endswith("errors::raise") for c in calls)
        rep.oblige("ERRKIND", "%s->%s" % (fn.split("::")[-1], ctor), ok,
                   sample={"rule": "ERRKIND", "fn": fn, "reaches": ctor, "holds": ok})
        if not ok:
            rep.add(Finding("ERRKIND", "ERRKIND|%s|%s" % (fn.split("::")[-1], ctor),
                            "%s no longer raises through %s (documented exception for this failure)" % (fn, ctor),
                            file=f.file, line=f.line, fn=f.path))
    # StringAccessError -> IncanError mapping (used by str_index / str_slice wrappers in incan_stdlib)
    conv = [f for p, f in F.fns.items() if "From<incan_core::strings::StringAccessError>" in p and p.endswith("::from")]
    if rep.anchor("ERRKIND", "From<StringAccessError> for IncanError", conv):
        f = conv[0]
        _, tab = enum_table(f, "incan_core::strings::StringAccessError")
        want = {"IndexOutOfRange": "string_index_out_of_range", "SliceStepZero": "slice_step_zero"}
        for v, c in want.items():
            callees = [x.split("::")[-1] for x in (tab or {}).get(v, ([], [], []))[2]]
            ok = c in callees
            rep.oblige("ERRKIND", "StringAccessError::%s" % v, ok,
                       sample={"rule": "ERRKIND", "variant": v, "maps_to": callees})
            if not ok:
                rep.add(Finding("ERRKIND", "ERRKIND|StringAccessError::%s" % v,
                                "StringAccessError::%s is converted through %s, expected %s" % (v, callees, c),
                                file=f.file, line=f.line, fn=f.path))


# ---------------------------------------------------------------------------------------------------------------
def overflow(F, rep, fns):
    n = 0
    for name, f in sorted(fns.items()):
        short = name.split("::")[-1] if not name.startswith("<") else "PyRange::next"
        per = {}
        for bi, b in enumerate(f.blocks):
            for s in b["st"]:
                if s["s"] != "assign" or s["rv"]["r"] != "bin":
                    continue
                op = s["rv"]["op"]
                if op not in ("Add", "Sub", "Mul", "AddWithOverflow", "SubWithOverflow", "MulWithOverflow"):
                    continue
                dl = s["d"]
                ty = f.local_ty(dl["l"]) if not dl["p"] else "i64"
                if "i64" not in ty:
                    continue
                a = operand_name(f, s["rv"]["a"])
                bname = operand_name(f, s["rv"]["b"])
                sym = {"Add": "+", "Sub": "-", "Mul": "*"}[op.replace("WithOverflow", "")]
                expr = "%s %s %s" % (a, sym, bname)
                per[expr] = per.get(expr, 0) + 1
                n += 1
                safe, why = classify_arith(f, bi, op, a, bname)
                inst = "%s|%s#%d" % (short, expr, per[expr])
                rep.oblige("OVERFLOW", inst, safe, sample={"rule": "OVERFLOW", "fn": name, "expr": expr,
                                                           "line": s.get("ln"), "safe": safe, "why": why})
                if not safe:
                    rep.add(Finding("OVERFLOW", "OVERFLOW|%s" % inst,
                                    "`%s` in %s can overflow i64 (%s); in the release profile generated programs "
                                    "are built with it wraps: wrong extra elements or a non-terminating loop for "
                                    "arguments near the i64 limits" % (expr, short, why), file=f.file,
                                    line=s.get("ln"), fn=f.path))
        # explicit-overflow-policy methods: saturating_* / checked_* cannot wrap; wrapping_* / overflowing_* / unchecked_*
        # wrap by definition
        for bi, t in f.calls():
            m = int_method(t)
            if not m:
                continue
            a = operand_name(f, t["args"][0]) if t["args"] else "?"
            bname = operand_name(f, t["args"][1]) if len(t["args"]) > 1 else "?"
            expr = "%s.%s(%s)" % (a, m, bname)
            per[expr] = per.get(expr, 0) + 1
            n += 1
            safe = m.startswith("saturating_") or m.startswith("checked_")
            inst = "%s|%s#%d" % (short, expr, per[expr])
            rep.oblige("OVERFLOW", inst, safe, sample={"rule": "OVERFLOW", "fn": name, "expr": expr,
                                                       "line": t.get("ln"), "safe": safe,
                                                       "why": "method with an explicit overflow policy"})
            if not safe:
                rep.add(Finding("OVERFLOW", "OVERFLOW|%s" % inst,
                                "`%s` in %s wraps on overflow by definition: wrong extra elements or a non-terminating "
                                "loop for arguments near the i64 limits" % (expr, short), file=f.file,
                                line=t.get("ln"), fn=f.path))
    rep.floor("OVERFLOW", "i64 add/sub/mul sites in the kernels", n, 14)


INT_METHODS = tuple(p + o for p in ("saturating_", "checked_", "wrapping_", "overflowing_", "unchecked_")
                    for o in ("add", "sub", "mul"))


def int_method(t):
    """name of the i64 overflow-policy method a call terminator resolves to, else None"""
    g = callee_generic(t) or ""
    last = g.split("::")[-1]
    if last in INT_METHODS and "core::num::" in g and "i64" in (t["f"].get("self") or g):
        return last
    return None


LEN_NAMES = ("len", "len_i")


def classify_arith(f, bi, op, a, b):
    op = op.replace("WithOverflow", "")
    if op == "Sub" and a in LEN_NAMES and b == "1":
        return True, "len - 1 with len >= 0"
    if op == "Add" and (b in LEN_NAMES or a in LEN_NAMES):
        other = a if b in LEN_NAMES else b
        # must be under `other < 0`
        for (cb, dl, an, bn, ln) in cmp_sites(f, "Lt", const="0", lhs_name=other):
            te = bool_switch_edges(f, dl)[1]
            dom = set()
            for (x, y) in te:
                dom |= blocks_dominated_by_edge(f, x, y)
            if bi in dom:
                return True, "%s < 0 on this path and len >= 0: operands of opposite sign" % other
        return False, "adding len to a value not known to be negative"
    return False, "operands may have the same sign and neither is bounded by the sequence length"


# ---------------------------------------------------------------------------------------------------------------
def slicetok(F, rep):
    f = F.one_fn("Parser::<'a>::index_or_slice") or F.one_fn("index_or_slice")
    if not rep.anchor("SLICETOK", "Parser::index_or_slice", f):
        return
    own = body_and_closures(F, f.path)
    # helper functions reachable from it inside the parser (excluding `expression`, which re-enters the grammar)
    clo = F.closure([f.path], pred=lambda p: p.startswith("incan_syntax::parser"),
                    stop=[x.path for x in F.find_fns(suffix="expression")])
    rep.functions.update(clo)
    mentions = False
    colon = False
    for p in clo:
        g = F.fns[p]
        for b in g.blocks:
            for s in b["st"]:
                if s["s"] == "assign" and s["rv"]["r"] == "agg" and s["rv"].get("adt", "").endswith("PunctuationId"):
                    if s["rv"]["variant"] == "ColonColon":
                        mentions = True
                    if s["rv"]["variant"] == "Colon":
                        colon = True
    # does the lexer produce ColonColon at all?
    lex_has = False
    for p, g in F.fns.items():
        if p.startswith("incan_syntax::lexer") or p.startswith("incan_core::lang::punctuation"):
            for b in g.blocks:
                for s in b["st"]:
                    if s["s"] == "assign" and s["rv"]["r"] == "agg" and s["rv"].get("variant") == "ColonColon":
                        lex_has = True
    rep.anchor("SLICETOK", "slice parser mentions PunctuationId::Colon", colon or None)
    ok = mentions or not lex_has
    rep.oblige("SLICETOK", "index_or_slice:ColonColon", ok,
               sample={"rule": "SLICETOK", "lexer_produces_ColonColon": lex_has, "slice_parser_handles_it": mentions,
                       "functions": len(clo)})
    if not ok:
        rep.add(Finding("SLICETOK", "SLICETOK|index_or_slice|ColonColon",
                        "the lexer folds `::` into one PunctuationId::ColonColon token, but nothing reachable from "
                        "the slice parser mentions that token: `s[::2]` and `s[1::2]` are syntax errors although "
                        "the slice grammar (and the parser's own comment) lists them", file=f.file, line=f.line,
                        fn=f.path))


# ---------------------------------------------------------------------------------------------------------------
def signature(f):
    sig = []
    for bi, b in enumerate(f.blocks):
        for s in b["st"]:
            if s["s"] == "assign" and s["rv"]["r"] == "bin":
                op = s["rv"]["op"]
                if op in ("Eq", "Ne", "Lt", "Le", "Gt", "Ge", "Add", "Sub"):
                    sig.append("%s(%s,%s)" % (op, operand_name(f, s["rv"]["a"]), operand_name(f, s["rv"]["b"])))
        t = b["term"]
        if t["t"] == "call":
            g = (callee_generic(t) or "").split("::")[-1]
            if g in ("clamp", "unwrap_or", "is_some", "is_none"):
                sig.append("%s(%s)" % (g, ",".join(operand_name(f, o) for o in t["args"])))
    return sorted(sig)


def sibling_note(F, rep, fns):
    a = fns.get("incan_core::strings::str_slice")
    b = fns.get("incan_stdlib::collections::list_slice")
    if a is None or b is None:
        return
    sa, sb = [], []
    for p in body_and_closures(F, a.path):
        sa += signature(F.fns[p])
    for p in body_and_closures(F, b.path):
        sb += signature(F.fns[p])
    sa, sb = sorted(sa), sorted(sb)
    only_a = sorted(set(sa) - set(sb))
    only_b = sorted(set(sb) - set(sa))
    rep.notes.append({"sibling_operations": {"str_slice": len(sa), "list_slice": len(sb),
                                             "only_in_str_slice": only_a[:6], "only_in_list_slice": only_b[:6]}})
