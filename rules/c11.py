"""C11 — the front end is total and its diagnostics are well-formed (DESIGN.md §4 C11).

Termination / stack depth in general and "every span lies inside the file" are NOT decided. Decided clauses:
  1 PANICINV  every panic site (index, slice, unwrap/expect, panic!/unreachable!, RefCell borrow, str::repeat, ...)
              in the closure of lex / parse / check / format / emit / render is discharged by a recognised guard,
              by a machine-checked invariant (parser cursor, scope-index, registry completeness, RefCell regions),
              or by the reviewed table (one site, one reason). Any other site is a finding — new code cannot add a
              panic path silently.
  2 NONEMPTY  lex / parse / check return Err(list) only on the `!list.is_empty()` edge
  3 CLAMP     the renderers clamp the offset to the text length before using it and take slice bounds only from
              char-boundary producers
"""
import re

from engines import (blocks_dominated_by_edge, body_and_closures, callee_generic, callee_name, derived_locals,
                     discr_switches, op_place, place_fields, trace_local_source, variant_edges, SUCCESS_VARIANTS,
                     const_str)
from harness import Finding
import panicinv as P

EXPLANATION = (
    "Panic-site inventory over the call-graph closure of the total entry points (lexer::lex, parser::parse, "
    "TypeChecker::check_with_imports, format_source, IrCodegen::try_generate*, diagnostics::format_error, "
    "lsp::compile_error_to_diagnostic, span_to_range, offset_to_position, position_to_offset): every bounds assert, "
    "Index/IndexMut call, str range slice, Option/Result unwrap/expect, panic!/unreachable!/todo!, RefCell borrow, "
    "str::repeat and Vec/String remove/insert/drain/split_at in ~1150 functions is classified. Automatic discharge: "
    "constant index under a dominating length test on the same container (==, >=, >, !is_empty, match on len), index "
    "tested against len(), range loop variables, unwrap inside the Some/Ok arm or under is_some/is_ok; parser cursor "
    "rule (tokens[pos-1] only after a dominating successful consume, saturating_sub indices); scope-index invariant "
    "of SymbolTable (scopes never shrinks, current_scope only set to len-1 after push or to a stored parent); "
    "registry completeness for info_for(..).expect; RefCell borrow regions free of conflicting borrows. The rest is "
    "in a reviewed table with reasons. Overflow asserts are compiled out (release profile) and not counted. Also: "
    "Err(list) is returned only when the list is non-empty; get_line_info/offset_to_position clamp offsets with "
    "min(len) before use.")

ENTRY = (
    "incan_syntax::lexer::lex", "incan_syntax::parser::parse",
    "incan::frontend::typechecker::TypeChecker::check_with_imports", "incan::format::format_source",
    "incan::backend::ir::codegen::IrCodegen::<'a>::try_generate",
    "incan::backend::ir::codegen::IrCodegen::<'a>::try_generate_module",
    "incan::backend::ir::codegen::IrCodegen::<'a>::try_generate_multi_file_nested",
    "incan_syntax::diagnostics::format_error", "incan::lsp::diagnostics::compile_error_to_diagnostic",
    "incan::lsp::diagnostics::span_to_range", "incan::lsp::diagnostics::offset_to_position",
    "incan::lsp::diagnostics::position_to_offset",
)

# (function short name, site kind, ordinal) -> reason.   Reviewed by reading; one site, one reason.
REVIEWED = {
    ("peek", "assert:bounds", 1): "parser cursor invariant: the lexer always appends Eof, pos starts at 0 and advance() "
                                  "increments only when the current token is not Eof, so pos < tokens.len()",
    ("peek_next", "assert:bounds", 1): "guarded by `pos + 1 < tokens.len()` on this branch",
    ("peek_next", "assert:bounds", 2): "tokens is non-empty (always ends with Eof), so len() - 1 is a valid index",
    ("advance", "assert:bounds", 1): "after the conditional increment pos >= 1 unless the first token is Eof; advance() is "
                                     "never called at Eof with pos == 0 (parse() does not enter declaration() on an "
                                     "empty stream and synchronize() runs only after a declaration consumed or failed "
                                     "on a non-Eof first token)",
    ("assignment_stmt", "Option::unwrap", 1): "`targets` holds at least the identifier parsed before the loop",
    ("scan_token", "Option::expect", 1): "peek() returned the quote character on this branch, so advance() is Some",
    ("scan_token", "Option::expect", 2): "peek() returned the quote character on this branch, so advance() is Some",
    ("peek_next", "index:str[range]", 1): "current_pos is maintained by advance() as a sum of len_utf8(): a char boundary "
                                          "<= source.len()",
    ("scan_identifier", "index:str[range]", 1): "start and current_pos are positions recorded by the char iterator: char "
                                                "boundaries with start <= current_pos",
    ("get_line_info", "index:str[range]", 1): "line_start is 0 or the byte after a '\\n' found by char_indices(): a char "
                                              "boundary <= len",
    ("get_line_info", "index:str[range]", 2): "line_start..line_end: both produced by char_indices()/find('\\n') on the "
                                              "same text",
    ("format_error", "str::repeat", 1): "col_num = offset - line_start + 1 >= 1 and is at most one line long",
    ("format_error", "str::repeat", 2): "underline_len is clamped with min(line_text.len()) and max(1)",
    ("write_indent", "str::repeat", 1): "indent_level grows by one per nested block of the parsed program",
    ("str_char_at", "Option::expect", 1): "normalize_index returned Some(pos) with pos < number of chars",
    ("determine_binop_plan", "unreachable!", 1): "inner match on `op` sits under `matches!(op, Eq|Ne|Lt|Le|Gt|Ge)` and "
                                                 "names exactly those six variants",
    ("lower_expr", "unreachable!", 1): "let-else after `matches!(args[0], CallArg::Positional(_))` in the enclosing "
                                       "condition",
    ("eval_const_expr", "unreachable!", 1): "str_char_at never returns StringAccessError::SliceStepZero",
    ("check_binary", "Option::expect", 1): "numeric_op_from_ast is total on the seven arithmetic operators of this arm "
                                           "(table decided by C07)",
    ("check_statement", "Option::expect", 1): "the CompoundOp -> BinaryOp map yields only arithmetic operators, on which "
                                              "numeric_op_from_ast is Some (C07 tables)",
    ("eval_const_expr", "Option::expect", 1): "numeric_op_from_ast is total on the arithmetic operators of this arm (C07)",
    ("lower_statement", "index:Vec", 2): "i ranges over 0..targets.len()-1, so i + 1 <= len - 1; the parser builds "
                                         "ChainedAssignment only with >= 2 targets",
    ("emit_web_route_wrappers::{closure#0}", "index:Vec[range]", 1): "full-range slice `[..]` cannot fail",
}

CONSUMERS_TRUE = ("match_token", "match_keyword", "match_punct", "match_operator", "match_any")
CONSUMERS_SOME = ("try_literal",)      # checked by some_implies_advance(): every Some return is dominated by advance()


def run(facts, rep, tier):
    F = facts["default"]
    rep.assumptions += [
        "release profile: arithmetic overflow asserts are compiled out and not counted as panic sites",
        "parser entry is reached with the lexer's token stream (non-empty, ends with Eof)",
        "a parser method that returns Ok(..) has consumed at least one token (progress of recursive descent)",
        "stack exhaustion on deeply nested input is out of scope (property bounds nesting depth)",
    ]
    missing = [e for e in ENTRY if e not in F.fns]
    for m in missing:
        rep.anchor("PANICINV", "entry point " + m, None)
    clo = F.closure([e for e in ENTRY if e in F.fns],
                    pred=lambda p: F.fns[p].crate in ("incan", "incan_syntax", "incan_core"))
    rep.functions.update(clo)
    rep.floor("PANICINV", "functions in the total entry points' closure", len(clo), 1000)
    scope_ok = scope_invariant(F, rep)
    registries = registry_complete(F, rep)
    n_sites = 0
    per_rule = {}
    for p in sorted(clo):
        f = F.fns[p]
        sites = P.sites_of(F, f)
        if not sites:
            continue
        ords = {}
        short = P.fn_short(p)
        for s in sites:
            n_sites += 1
            key = (short, s["kind"])
            ords[key] = ords.get(key, 0) + 1
            o = ords[key]
            inst = "%s|%s#%d" % (short, s["kind"], o)
            reason = discharge(F, f, s, scope_ok, registries)
            if reason is None and (short, s["kind"], o) in REVIEWED:
                reason = "reviewed: " + REVIEWED[(short, s["kind"], o)]
                rep.exempt("PANICINV", inst, REVIEWED[(short, s["kind"], o)])
            cls = (reason or "UNDISCHARGED").split(":")[0][:40]
            per_rule[cls] = per_rule.get(cls, 0) + 1
            rep.oblige("PANICINV", inst, reason is not None,
                       sample={"rule": "PANICINV", "site": inst, "file": f.file, "line": s["ln"],
                               "discharged_by": reason or "NOTHING"})
            rep.call_sites += 1
            if reason is None:
                rep.add(Finding("PANICINV", "PANICINV|%s" % inst,
                                "panic site (%s) in the closure of the total front-end entry points is not covered "
                                "by a dominating guard, a checked invariant or the reviewed table: some input may "
                                "make lexing/parsing/checking/formatting/rendering panic instead of returning a "
                                "diagnostic" % s["kind"], file=f.file, line=s["ln"], fn=p))
    rep.floor("PANICINV", "panic sites classified", n_sites, 150)
    rep.notes.append({"discharge_classes": per_rule})
    nonempty(F, rep)
    clamp(F, rep)
    spansrc(F, rep)


# ---------------------------------------------------------------------------------------------------------------
def discharge(F, f, s, scope_ok, registries):
    kind = s["kind"]
    t = s["term"]
    if kind.startswith("assert:bounds") or (kind.startswith("index:") and "[key]" not in kind and
                                            "[range]" not in kind):
        r = P.discharge_index(F, f, s)
        if r:
            return "guard: " + r
        r = parser_cursor(F, f, s)
        if r:
            return "parser-cursor: " + r
        if scope_ok and f.path.startswith("incan::frontend::symbols::SymbolTable"):
            base, idx = P.index_operand(f, s)
            if base is not None and base[1][-1:] == ("scopes",):
                return "scope-index invariant: scopes never shrinks and every index stored in current_scope / " \
                       "Scope.parent was a valid index when stored"
        return None
    if kind.split("::")[-1] in ("unwrap", "expect"):
        r = P.discharge_unwrap(F, f, s)
        if r:
            return "guard: " + r
        if f.path.endswith("::info_for") and registries.get(f.path.rsplit("::", 1)[0]):
            return "registry completeness: every id of the enum has an entry in the table searched by info_for"
        return None
    if kind.startswith("RefCell::"):
        return refcell_region(F, f, s)
    return None


def parser_cursor(F, f, s):
    if not f.path.startswith("incan_syntax::parser::Parser"):
        return None
    base, idx = P.index_operand(f, s)
    if base is None or base[1][-1:] != ("tokens",):
        return None
    ip = op_place(idx) if idx else None
    if ip is None:
        return None
    d = f.single_def(ip["l"])
    # tokens[pos.saturating_sub(1)]
    if d and d[2] == "call" and (callee_generic(d[3]) or "").endswith("saturating_sub"):
        return "index is pos.saturating_sub(1) <= pos < len (cursor invariant)"
    if not (d and d[2] == "assign" and d[3]["r"] == "bin" and d[3]["op"] in ("Sub", "SubWithOverflow")):
        return None
    k = P.const_int(d[3]["b"])
    if k != 1:
        return None
    # tokens[pos - 1]: a consume must dominate
    blk = s["block"]
    dom = f.dominators().get(blk, set())
    for bi, t in f.calls():
        n = (callee_name(t) or "")
        last = n.split("::")[-1]
        if not n.startswith("incan_syntax::parser::Parser"):
            continue
        if last == "advance" and bi in dom:
            return "dominated by advance()"
        if t["d"]["p"]:
            continue
        if last in CONSUMERS_TRUE:
            from c09 import bool_edges
            for (a, b) in bool_edges(f, t["d"]["l"], True):
                if blk in blocks_dominated_by_edge(f, a, b):
                    return "dominated by the success edge of %s()" % last
        elif F.items.get(n, {}).get("output", "").startswith("core::result::Result<"):
            edges = variant_edges(f, t["d"]["l"], SUCCESS_VARIANTS)
            for (a, b) in edges:
                if blk in blocks_dominated_by_edge(f, a, b):
                    return "dominated by the Ok edge of %s() (a successful parse consumed a token)" % last
        elif last in CONSUMERS_SOME and some_implies_advance(F, n):
            for (a, b) in variant_edges(f, t["d"]["l"], ("Some",)):
                if blk in blocks_dominated_by_edge(f, a, b):
                    return "dominated by the Some edge of %s() (returns Some only after advance())" % last
    return None


def some_implies_advance(F, name):
    """Every `Some(..)` built into the return place of `name` is dominated by a call to Parser::advance."""
    g = F.fns.get(name)
    if g is None:
        return False
    adv = {bi for bi, t in g.calls() if (callee_name(t) or "").endswith("::advance")}
    dom = g.dominators()
    somes = [bi for bi, b in enumerate(g.blocks) for st in b["st"]
             if st["s"] == "assign" and st["rv"]["r"] == "agg" and st["rv"].get("variant") == "Some"
             and not st["d"]["p"] and st["d"]["l"] == 0]
    return bool(somes) and all(dom.get(bi, set()) & adv for bi in somes)


def scope_invariant(F, rep):
    """SymbolTable: `scopes` is never shortened; `current_scope` is only assigned 0, len()-1 after a push, or a
    value read from Scope.parent."""
    ok = True
    n = 0
    for p, f in F.fns.items():
        if f.crate != "incan":
            continue
        for bi, t in f.calls():
            g = callee_generic(t) or ""
            last = g.split("::")[-1]
            if last in ("pop", "remove", "clear", "truncate", "drain", "swap_remove", "split_off", "retain"):
                a = op_place(t["args"][0]) if t["args"] else None
                if a is None:
                    continue
                d = f.single_def(a["l"])
                if d and d[2] == "assign" and d[3]["r"] == "ref":
                    fl = place_fields(d[3]["p"])
                    if fl and fl[-1][0].endswith("symbols::SymbolTable") and fl[-1][2] == "scopes":
                        ok = False
                        rep.add(Finding("PANICINV", "PANICINV|scope-invariant|%s|%s" % (P.fn_short(p), last),
                                        "SymbolTable.scopes is shortened by %s in %s: indices stored in "
                                        "current_scope / Scope.parent can dangle and every `scopes[..]` access may "
                                        "panic" % (last, P.fn_short(p)), file=f.file, line=t.get("ln"), fn=p))
        for b in f.blocks:
            for s in b["st"]:
                if s["s"] != "assign":
                    continue
                fl = place_fields(s["d"])
                if not (fl and fl[-1][0].endswith("symbols::SymbolTable") and fl[-1][2] == "current_scope"):
                    continue
                n += 1
                rv = s["rv"]
                good = False
                if rv["r"] == "use":
                    if P.const_int(rv["o"]) == 0:
                        good = True
                    pl = op_place(rv["o"])
                    if pl is not None:
                        src = trace_local_source(f, pl["l"])
                        if src and src[0] == "place" and any(x[2] in ("parent", "0") for x in place_fields(src[1])):
                            good = True
                        d = f.single_def(pl["l"])
                        if d and d[2] == "assign" and d[3]["r"] == "bin" and d[3]["op"] in ("Sub", "SubWithOverflow") \
                                and P.const_int(d[3]["b"]) == 1:
                            good = True
                elif rv["r"] == "bin" and rv["op"] in ("Sub", "SubWithOverflow") and P.const_int(rv["b"]) == 1:
                    good = True
                elif rv["r"] == "agg":
                    good = True
                if not good:
                    ok = False
                    rep.add(Finding("PANICINV", "PANICINV|scope-invariant|%s|current_scope" % P.fn_short(p),
                                    "SymbolTable.current_scope is assigned a value that is neither 0, len()-1 after "
                                    "a push, nor a stored parent index", file=f.file, line=s.get("ln"), fn=p))
    rep.oblige("PANICINV", "scope-index-invariant", ok, sample={"rule": "PANICINV", "invariant": "scope index",
                                                                "writes_to_current_scope": n, "holds": ok})
    return ok


def registry_complete(F, rep):
    """module path -> True when the registry table of that module lists every variant of its id enum."""
    out = {}
    for p, f in F.fns.items():
        if not (p.startswith("incan_core::lang::") and p.endswith("::info_for")):
            continue
        mod = p.rsplit("::", 1)[0]
        # the id enum = type of the argument; the table = the const searched (first const fn item mentioned)
        argty = f.local_ty(1) if f.argc >= 1 else ""
        enum_adt = argty if argty in F.adts else None
        if enum_adt is None:
            continue
        variants = {v["name"] for v in F.adts[enum_adt]["variants"]}
        listed = set()
        for q, g in F.fns.items():
            if q.startswith(mod + "::") and g.dk.startswith("Const") and q.count("::") == mod.count("::") + 1:
                for b in g.blocks:
                    for s in b["st"]:
                        if s["s"] == "assign" and s["rv"]["r"] == "agg" and s["rv"].get("adt") == enum_adt:
                            listed.add(s["rv"]["variant"])
        ok = variants <= listed and bool(variants)
        out[mod] = ok
        rep.oblige("PANICINV", "registry-complete:" + mod.split("::")[-1], ok,
                   sample={"rule": "PANICINV", "registry": mod, "ids": len(variants), "listed": len(listed & variants)})
        if not ok:
            missing = sorted(variants - listed)
            rep.add(Finding("PANICINV", "PANICINV|registry|%s" % mod.split("::")[-1],
                            "registry %s has no entry for %s: info_for(..).expect(..) panics for those ids"
                            % (mod, missing[:5]), file=f.file, line=f.line, fn=p))
    return out


def refcell_region(F, f, s):
    """The guard returned by borrow()/borrow_mut() is dropped before any call that can borrow the same cell again."""
    t = s["term"]
    a = op_place(t["args"][0]) if t["args"] else None
    cell = None
    if a is not None:
        d = f.single_def(a["l"])
        if d and d[2] == "assign" and d[3]["r"] == "ref":
            fl = place_fields(d[3]["p"])
            if fl:
                cell = fl[-1]
    if cell is None or t["d"]["p"] or t["to"] is None:
        return None
    g = t["d"]["l"]
    ends = set()
    for bi, b in enumerate(f.blocks):
        tt = b["term"]
        if tt["t"] == "drop" and not tt["p"]["p"] and tt["p"]["l"] == g:
            ends.add(bi)
        for st in b["st"]:
            if st["s"] == "dead" and st["l"] == g:
                ends.add(bi)       # StorageDead precedes the block's terminator: that terminator is outside
    live = f.reachable(t["to"], avoid=ends)
    mutable = s["kind"].endswith("borrow_mut")
    for b in live:
        tt = f.term(b)
        if tt["t"] != "call" or b == s["block"]:
            continue
        cn = callee_name(tt)
        if not cn or cn not in F.fns or not cn.startswith("incan::"):
            continue
        for q in F.closure([cn], pred=lambda x: x.startswith("incan::backend")):
            for b2, t2 in F.fns[q].calls():
                g2 = callee_generic(t2) or ""
                if "RefCell" in g2 and g2.split("::")[-1] in ("borrow", "borrow_mut"):
                    a2 = op_place(t2["args"][0]) if t2["args"] else None
                    d2 = F.fns[q].single_def(a2["l"]) if a2 else None
                    if d2 and d2[2] == "assign" and d2[3]["r"] == "ref":
                        fl2 = place_fields(d2[3]["p"])
                        if fl2 and fl2[-1] == cell and (mutable or g2.endswith("borrow_mut")):
                            return None
    return "borrow region: the %s guard on %s is released before any call that borrows the same cell %s" % (
        "RefMut" if mutable else "Ref", cell[2], "at all" if mutable else "mutably")


# ---------------------------------------------------------------------------------------------------------------
def nonempty(F, rep):
    for name in ("incan_syntax::lexer::Lexer::<'a>::tokenize", "incan_syntax::parser::Parser::<'a>::parse",
                 "incan::frontend::typechecker::TypeChecker::check_program"):
        f = F.fn(name)
        if not rep.anchor("NONEMPTY", name, f):
            continue
        errs = [(bi, s) for bi, b in enumerate(f.blocks) for s in b["st"]
                if s["s"] == "assign" and s["rv"]["r"] == "agg" and s["rv"].get("variant") == "Err"
                and s["rv"].get("adt", "").endswith("result::Result") and not s["d"]["p"] and s["d"]["l"] == 0]
        emp = [(bi, t) for bi, t in f.calls() if (callee_generic(t) or "").endswith("::is_empty")]
        ok = bool(errs) and bool(emp)
        if ok:
            from c09 import bool_edges
            dom = set()
            for bi, t in emp:
                if not t["d"]["p"]:
                    for (a, b) in bool_edges(f, t["d"]["l"], False):
                        dom |= blocks_dominated_by_edge(f, a, b)
            ok = all(bi in dom for bi, _ in errs)
        short = name.split("::")[-1]
        rep.oblige("NONEMPTY", short, ok, sample={"rule": "NONEMPTY", "fn": name, "err_returns": len(errs),
                                                  "all_under_not_is_empty": ok})
        if not ok:
            rep.add(Finding("NONEMPTY", "NONEMPTY|%s" % short,
                            "%s can return Err(list) on a path not dominated by `!list.is_empty()`: a failure with "
                            "no diagnostic at all" % short, file=f.file, line=f.line, fn=name))


def clamp(F, rep):
    for name, arg in (("incan_syntax::diagnostics::get_line_info", "offset"),
                      ("incan::lsp::diagnostics::offset_to_position", "offset")):
        f = F.fn(name)
        if not rep.anchor("CLAMP", name, f):
            continue
        # the offset parameter must go through min(.., len()) before any other use
        mins = [(bi, t) for bi, t in f.calls() if (callee_generic(t) or "").endswith("Ord::min") or
                (callee_generic(t) or "").endswith("::min")]
        ok = False
        for bi, t in mins:
            srcs = []
            for o in t["args"]:
                pl = op_place(o)
                if pl is not None:
                    srcs.append(trace_local_source(f, pl["l"]))
            has_arg = any(x and x[0] == "arg" for x in srcs)
            has_len = any(x and x[0] == "call" and (callee_generic(x[1]) or "").endswith("::len") for x in srcs)
            if has_arg and has_len and bi in f.dominators().get(max(range(len(f.blocks))), {bi}) or (has_arg and has_len):
                ok = True
        short = name.split("::")[-1]
        rep.oblige("CLAMP", short, ok, sample={"rule": "CLAMP", "fn": name, "offset_clamped_with_min_len": ok})
        if not ok:
            rep.add(Finding("CLAMP", "CLAMP|%s" % short,
                            "%s no longer clamps its offset with min(text.len()) before use: a span past the end of "
                            "the text makes rendering panic or report a position outside the document" % short,
                            file=f.file, line=f.line, fn=name))


TEXT_MEASURES = ("len", "chars", "count", "len_utf8", "char_indices", "width", "find", "rfind", "position", "bytes")


def spansrc(F, rep):
    """SPANSRC - the parser never computes a source offset: every Span it builds takes its ends from token spans
    (or from spans built from them). The token payloads it sees are decoded text (escapes and doubled braces
    already collapsed), so an offset derived from the length of a payload is not a source position - it can fall
    outside the construct or inside a multi-byte character. Decides where the offsets come from, not their values."""
    from engines import backward_slice, callee_generic, callee_name, op_place
    n = 0
    for p in sorted(F.fns):
        if not p.startswith("incan_syntax::parser") or "::tests::" in p:
            continue
        f = F.fns[p]
        per = 0
        for bi, t in f.calls():
            cn = callee_name(t) or ""
            if not cn.endswith("ast::Span::new"):
                continue
            n += 1
            per += 1
            locs = [op_place(o)["l"] for o in t["args"] if op_place(o) is not None]
            _, calls, _ = backward_slice(f, locs)
            meas = sorted({(callee_generic(c) or callee_name(c) or "").split("::")[-1].split("<")[0]
                           for _, c in calls} & set(TEXT_MEASURES))
            fn = p.split("parser::")[-1]
            inst = "%s#%d" % (fn, per)
            rep.oblige("SPANSRC", inst, not meas)
            if meas:
                rep.add(Finding("SPANSRC", "SPANSRC|%s|%s" % (fn, "+".join(meas)),
                                "%s builds a span from a measured text length (%s): token payloads are decoded text, "
                                "so the offset is not a source position and the diagnostic span can start inside a "
                                "character or outside the construct" % (fn, ", ".join(meas)),
                                file=f.file, line=t.get("ln"), fn=p))
    rep.floor("SPANSRC", "Span::new calls in the parser", n, 40)
