"""Engines shared by the property drivers (DESIGN.md §3)."""
from collections import defaultdict, deque

from facts import (callee_generic, callee_name, iter_operands_rv, iter_read_places, op_const, op_place,
                   place_fields)
from harness import Finding

AST = "incan_syntax::ast::"
IR = "incan::backend::ir::"


def short(adt):
    return adt.split("::")[-1]


# ---------------------------------------------------------------------------------------------------------------
# node universes
# ---------------------------------------------------------------------------------------------------------------
def adts_with_prefix(F, prefixes):
    return [p for p in F.adts if any(p.startswith(x) for x in prefixes)]


def bearing(F, universe, roots):
    """ADTs of `universe` from which one of `roots` is reachable through field types (roots included)."""
    uni = set(universe)
    bear = set(r for r in roots if r in uni)
    changed = True
    while changed:
        changed = False
        for a in uni:
            if a in bear:
                continue
            for (_, _, _, info) in F.adt_fields(a):
                if any(x in bear for x in info["adts"]):
                    bear.add(a)
                    changed = True
                    break
    return bear


def field_is_bearing(info, bear):
    return any(x in bear for x in info["adts"])


def is_span_field(info):
    return info["ty"] == AST + "Span" or info["ty"].endswith("::Span")


# ---------------------------------------------------------------------------------------------------------------
# COVER
# ---------------------------------------------------------------------------------------------------------------
def cover(F, rep, rule, pass_name, fnpaths, universe, relevant, exempt, include_write=False):
    """Every relevant (ADT, variant, field) of `universe` is read by some function of the pass.

    exempt: {"Adt::Variant.field": reason}. Returns (checked, unread list).
    """
    raw = F.field_reads(fnpaths, include_write=include_write)
    # "read" = consumed (CONSUME engine below): a field that is only tested with is_some()/is_empty()/len(), or bound
    # and never used, cannot influence what the pass produces from its content
    cons = field_consumption(F, fnpaths)
    reads = {k: [(p, ln) for (p, ln, _) in v] for k, v in cons.items()}
    if include_write:
        for k, v in raw.items():
            reads.setdefault(k, v)
    rep.functions.update(fnpaths)
    unread = []
    n = 0
    for a in sorted(universe):
        for (adt, v, f, info) in F.adt_fields(a):
            if not relevant(adt, v, f, info):
                continue
            n += 1
            inst = "%s::%s.%s" % (short(adt), v, f)
            sites = reads.get((adt, v, f), [])
            if sites:
                p, ln = sites[0]
                rep.oblige(rule, pass_name + ":" + inst, True,
                           sample={"rule": rule, "pass": pass_name, "field": inst, "read_in": p,
                                   "file": F.fns[p].file, "line": ln, "sites": len(sites)})
                continue
            if inst in exempt:
                rep.oblige(rule, pass_name + ":" + inst, True)
                rep.exempt(rule, pass_name + ":" + inst, exempt[inst])
                continue
            rep.oblige(rule, pass_name + ":" + inst, False)
            a_rec = F.adts[adt]
            rep.add(Finding(rule, "%s|%s|%s" % (rule, pass_name, inst),
                            "field %s (type %s) is never read by any of the %d functions of pass '%s': programs "
                            "that differ only in this field are treated identically by the pass"
                            % (inst, info["ty"], len(fnpaths), pass_name),
                            file=a_rec["file"], line=a_rec["line"], fn=pass_name))
            unread.append(inst)
    return n, unread


# ---------------------------------------------------------------------------------------------------------------
# EXHAUST
# ---------------------------------------------------------------------------------------------------------------
def discr_switches(f):
    """All SwitchInt terminators of f that dispatch on an enum discriminant.

    -> list of dict(block, adt, place, explicit{variant->target}, otherwise, otherwise_live, rest[variants])
    """
    out = []
    for bi, b in enumerate(f.blocks):
        t = b["term"]
        if t["t"] != "switch":
            continue
        p = op_place(t["on"])
        if p is None or p["p"]:
            continue
        d = f.single_def(p["l"])
        if not d or d[2] != "assign" or d[3]["r"] != "discr":
            continue
        rv = d[3]
        names = dict((a, b2) for a, b2 in rv["vars"])
        explicit = {}
        for v, tgt in t["targets"]:
            explicit[names.get(v, "#" + v)] = tgt
        live = not f.is_unreachable_block(t["otherwise"])
        rest = [n for _, n in rv["vars"] if n not in explicit]
        out.append({"block": bi, "adt": rv["adt"], "place": rv["p"], "explicit": explicit,
                    "otherwise": t["otherwise"], "otherwise_live": live, "rest": rest if live else [],
                    "ln": t.get("ln")})
    return out


def primary_dispatch(f, enum_adt):
    """The switch over `enum_adt` with the most explicit targets (the function's main `match`)."""
    best = None
    for s in discr_switches(f):
        if s["adt"] != enum_adt:
            continue
        if best is None or len(s["explicit"]) > len(best["explicit"]):
            best = s
    return best


def exhaust(F, rep, rule, fn_suffix, enum_adt, allowed, min_explicit=1):
    """The main match of dispatcher `fn_suffix` over `enum_adt` names every variant explicitly, except the
    reviewed `allowed` {variant: reason} which may fall into a catch-all arm."""
    f = F.one_fn(fn_suffix)
    if not rep.anchor(rule, "dispatcher %s" % fn_suffix, f):
        return None
    rep.functions.add(f.path)
    s = primary_dispatch(f, enum_adt)
    if not rep.anchor(rule, "match over %s in %s" % (short(enum_adt), fn_suffix), s):
        return None
    if len(s["explicit"]) < min_explicit:
        rep.add(Finding(rule, "%s|%s|%s|too-few-arms" % (rule, fn_suffix, short(enum_adt)),
                        "main match over %s in %s has only %d explicit arm(s); confirmed floor is %d"
                        % (short(enum_adt), fn_suffix, len(s["explicit"]), min_explicit),
                        file=f.file, line=s["ln"], fn=f.path))
    all_vars = [v["name"] for v in F.adts[enum_adt]["variants"]]
    for v in all_vars:
        inst = "%s:%s::%s" % (fn_suffix, short(enum_adt), v)
        if v in s["explicit"]:
            rep.oblige(rule, inst, True)
            continue
        if not s["otherwise_live"]:
            # not explicit, yet otherwise unreachable: uninhabited / impossible; treat as handled
            rep.oblige(rule, inst, True)
            continue
        if v in allowed:
            rep.oblige(rule, inst, True)
            rep.exempt(rule, inst, allowed[v])
            continue
        rep.oblige(rule, inst, False, sample={"rule": rule, "fn": f.path, "enum": short(enum_adt), "variant": v,
                                              "file": f.file, "line": s["ln"]})
        rep.add(Finding(rule, "%s|%s|%s::%s" % (rule, fn_suffix, short(enum_adt), v),
                        "variant %s::%s falls into the catch-all arm of the main match in %s (not in the reviewed "
                        "allow-list): the construct is silently treated like 'everything else'"
                        % (short(enum_adt), v, fn_suffix), file=f.file, line=s["ln"], fn=f.path))
    rep.samples.append({"rule": rule, "fn": f.path, "enum": short(enum_adt), "explicit_arms": len(s["explicit"]),
                        "catch_all_live": s["otherwise_live"], "falls_through": s["rest"], "file": f.file,
                        "line": s["ln"]})
    return s


# ---------------------------------------------------------------------------------------------------------------
# small call helpers
# ---------------------------------------------------------------------------------------------------------------
def calls_in(f, pred):
    """(block, terminator) of call sites in f whose resolved or generic callee satisfies pred(name)."""
    out = []
    for bi, t in f.calls():
        n = callee_name(t)
        g = callee_generic(t)
        if (n and pred(n)) or (g and pred(g)):
            out.append((bi, t))
    return out


def name_is(suffix):
    def p(n):
        return n == suffix or n.endswith("::" + suffix)
    return p


def closure_calls(F, fnpaths, pred):
    """All call sites inside the given functions whose callee satisfies pred -> (fnpath, block, term)."""
    out = []
    for p in fnpaths:
        f = F.fns[p]
        for bi, t in calls_in(f, pred):
            out.append((p, bi, t))
    return out


def body_and_closures(F, path):
    """A function together with its nested closure / coroutine bodies."""
    out = [path] if path in F.fns else []
    pre = path + "::{"
    out.extend(p for p in F.fns if p.startswith(pre))
    return out


# ---------------------------------------------------------------------------------------------------------------
# DOM helpers
# ---------------------------------------------------------------------------------------------------------------
def blocks_dominated_by_edge(f, src, dst):
    """Blocks reachable only through the CFG edge src->dst (i.e. dominated by that edge)."""
    # remove the edge; anything no longer reachable from entry was dominated by it
    succs = f.succs()
    seen = set()
    dq = deque([0])
    while dq:
        b = dq.popleft()
        if b in seen:
            continue
        seen.add(b)
        for s in succs[b]:
            if b == src and s == dst:
                continue
            dq.append(s)
    allr = f.reachable(0)
    return allr - seen


def reaches(f, start, targets, avoid=()):
    r = f.reachable(start, avoid=avoid)
    return any(t in r for t in targets)


def trace_local_source(f, local, depth=12):
    """Follow single-assignment copies/moves/refs/derefs/casts of a temp back to its origin.

    -> ('arg', n) | ('call', term) | ('const', operand) | ('place', place) | ('rv', rvalue) | None
    """
    seen = set()
    cur = local
    while depth > 0:
        depth -= 1
        if cur in seen:
            return None
        seen.add(cur)
        if 1 <= cur <= f.argc:
            ds = f.defs().get(cur, [])
            if not ds:
                return ("arg", cur)
        d = f.single_def(cur)
        if d is None:
            if 1 <= cur <= f.argc:
                return ("arg", cur)
            return None
        if d[2] == "call":
            return ("call", d[3])
        rv = d[3]
        r = rv["r"]
        if r in ("use", "cast"):
            o = rv["o"]
            pl = op_place(o)
            if pl is None:
                return ("const", o)
            if pl["p"] and any(e[0] != "deref" for e in pl["p"]):
                return ("place", pl)
            cur = pl["l"]
            continue
        if r in ("ref", "cfd", "rawptr"):
            pl = rv["p"]
            if pl["p"] and any(e[0] != "deref" for e in pl["p"]):
                return ("place", pl)
            cur = pl["l"]
            continue
        return ("rv", rv)
    return None


def const_str(o):
    """String literal value of a constant operand ("\"abc\"" -> abc), else None."""
    if o is None or "c" not in o:
        return None
    c = o["c"]
    if o.get("ty") in ("&str", "&'static str") and c.startswith('"') and c.endswith('"'):
        body = c[1:-1]
        try:
            return bytes(body, "utf-8").decode("unicode_escape").encode("latin-1", "ignore").decode("utf-8", "ignore") \
                if "\\" in body else body
        except Exception:
            return body
    return None


def all_string_constants(f):
    """Every &str constant mentioned in f -> list of (block, value)."""
    out = []
    for bi, b in enumerate(f.blocks):
        for s in b["st"]:
            if s["s"] == "assign":
                for o in iter_operands_rv(s["rv"]):
                    v = const_str(o)
                    if v is not None:
                        out.append((bi, v))
        t = b["term"]
        if t["t"] in ("call", "tailcall"):
            for o in t["args"]:
                v = const_str(o)
                if v is not None:
                    out.append((bi, v))
    return out


# ---------------------------------------------------------------------------------------------------------------
# backward slice (flow-insensitive over a body's locals; MIR temporaries are single-assignment in practice)
# ---------------------------------------------------------------------------------------------------------------
def backward_slice(f, start_locals, max_steps=4000):
    """All locals the given locals may be computed from, the call terminators that define any of them, and the
    argument indices reached. -> (locals, [(block, callterm)], args_reached)"""
    seen = set()
    calls = []
    args = set()
    dq = deque(start_locals)
    defs = f.defs()
    # partial writes (`x.f = ..`) also feed x
    partial = defaultdict(list)
    for bi, b in enumerate(f.blocks):
        for s in b["st"]:
            if s["s"] == "assign" and s["d"]["p"]:
                partial[s["d"]["l"]].append(s["rv"])
    # container writes: `v.push(x)` / `m.insert(k, x)` / `v.extend(it)` feed v
    feeders = defaultdict(list)
    for bi, b in enumerate(f.blocks):
        t = b["term"]
        if t["t"] != "call" or not t["args"]:
            continue
        last = (callee_generic(t) or "").split("::")[-1]
        if last not in ("push", "insert", "extend", "push_back", "push_front", "push_str", "append"):
            continue
        a0 = op_place(t["args"][0])
        if a0 is None:
            continue
        root = a0["l"]
        for _ in range(4):
            d = f.single_def(root)
            if d and d[2] == "assign" and d[3]["r"] in ("ref", "cfd") and \
                    all(e[0] == "deref" for e in d[3]["p"]["p"]):
                root = d[3]["p"]["l"]
            else:
                break
        feeders[root].append((bi, t))
    steps = 0
    while dq and steps < max_steps:
        steps += 1
        l = dq.popleft()
        if l in seen:
            continue
        seen.add(l)
        for (bi, t) in feeders.get(l, []):
            calls.append((bi, t))
            for o in t["args"][1:]:
                p = op_place(o)
                if p is not None:
                    dq.append(p["l"])
        if 1 <= l <= f.argc:
            args.add(l)
        for (bi, si, kind, payload) in defs.get(l, []):
            if kind == "call":
                calls.append((bi, payload))
                for o in payload["args"]:
                    p = op_place(o)
                    if p is not None:
                        dq.append(p["l"])
                        for e in p["p"]:
                            if e[0] == "idx":
                                dq.append(e[1])
            else:
                rv = payload
                for o in iter_operands_rv(rv):
                    p = op_place(o)
                    if p is not None:
                        dq.append(p["l"])
                if "p" in rv and isinstance(rv["p"], dict):
                    dq.append(rv["p"]["l"])
        for rv in partial.get(l, []):
            for o in iter_operands_rv(rv):
                p = op_place(o)
                if p is not None:
                    dq.append(p["l"])
            if "p" in rv and isinstance(rv["p"], dict):
                dq.append(rv["p"]["l"])
    return seen, calls, args


def closure_creation_sites(F, parent, closure_path):
    """(block, stmt) in parent where the closure value is built, and the local holding it."""
    out = []
    for bi, b in enumerate(parent.blocks):
        for si, s in enumerate(b["st"]):
            if s["s"] == "assign" and s["rv"]["r"] == "agg" and s["rv"].get("def") == closure_path:
                out.append((bi, si, s["d"]["l"], s["rv"]))
    return out


def slice_calls_through_closures(F, f, start_locals, depth=3):
    """backward_slice that continues in the parent body when it reaches a closure's own parameters:
    the closure is passed to a combinator (`opt.and_then(|x| ..)`), so its parameters derive from the
    combinator's other arguments."""
    locs, calls, args = backward_slice(f, start_locals)
    names = [(f.path, callee_name(t) or callee_generic(t)) for _, t in calls]
    if depth > 0 and args and "::{closure" in f.path:
        i = f.path.rfind("::{")
        parent = F.fns.get(f.path[:i])
        if parent is not None:
            for (bi, si, cl, rv) in closure_creation_sites(F, parent, f.path):
                # captured upvars feed the closure too
                starts = []
                for o in rv["ops"]:
                    p = op_place(o)
                    if p is not None:
                        starts.append(p["l"])
                # calls receiving the closure
                holders = {cl}
                # follow moves of the closure value
                for b in parent.blocks:
                    for s in b["st"]:
                        if s["s"] == "assign" and s["rv"]["r"] == "use":
                            p = op_place(s["rv"]["o"])
                            if p is not None and p["l"] in holders and not s["d"]["p"]:
                                holders.add(s["d"]["l"])
                for b2, t in parent.calls():
                    argl = [op_place(o)["l"] for o in t["args"] if op_place(o) is not None]
                    if any(a in holders for a in argl):
                        starts.extend(a for a in argl if a not in holders)
                if starts:
                    more = slice_calls_through_closures(F, parent, starts, depth - 1)
                    names.extend(more)
    return names


# ---------------------------------------------------------------------------------------------------------------
# success edges of a fallible call
# ---------------------------------------------------------------------------------------------------------------
def derived_locals(f, root):
    """Locals that hold (a move/copy/ref/`Try::branch` of) the value in `root`."""
    out = {root}
    changed = True
    while changed:
        changed = False
        for bi, b in enumerate(f.blocks):
            for s in b["st"]:
                if s["s"] == "assign" and not s["d"]["p"] and s["d"]["l"] not in out:
                    rv = s["rv"]
                    src = None
                    if rv["r"] in ("use", "cast"):
                        p = op_place(rv["o"])
                        if p is not None and all(e[0] == "deref" for e in p["p"]):
                            src = p["l"]
                    elif rv["r"] in ("ref", "cfd"):
                        p = rv["p"]
                        if all(e[0] == "deref" for e in p["p"]):
                            src = p["l"]
                    if src in out:
                        out.add(s["d"]["l"])
                        changed = True
            t = b["term"]
            if t["t"] == "call" and not t["d"]["p"] and t["d"]["l"] not in out:
                n = callee_generic(t) or ""
                if n.endswith("Try::branch") or n.endswith("::as_ref") or n.endswith("::as_mut") \
                        or n.endswith("IntoIterator::into_iter") and False:
                    p = op_place(t["args"][0]) if t["args"] else None
                    if p is not None and p["l"] in out:
                        out.add(t["d"]["l"])
                        changed = True
    return out


SUCCESS_VARIANTS = ("Ok", "Some", "Continue")
FAILURE_VARIANTS = ("Err", "None", "Break")


def variant_edges(f, root_local, variants):
    """CFG edges (switch_block, target) taken when the value in root_local is one of `variants`."""
    locs = derived_locals(f, root_local)
    edges = []
    for s in discr_switches(f):
        if s["place"]["l"] in locs and all(e[0] == "deref" for e in s["place"]["p"]):
            for v, tgt in s["explicit"].items():
                if v in variants:
                    edges.append((s["block"], tgt))
            # `if let Err(..) = r {..} else {ok}`: success may be the otherwise edge
            if s["otherwise_live"]:
                rest_all = set(s["rest"])
                if rest_all and rest_all.issubset(set(variants)):
                    edges.append((s["block"], s["otherwise"]))
    return edges


def dominated_by_any_edge(f, edges):
    out = set()
    for (a, b) in edges:
        out |= blocks_dominated_by_edge(f, a, b)
    return out


# ---------------------------------------------------------------------------------------------------------------
# TABLE — decision tables of enum-dispatching functions
# ---------------------------------------------------------------------------------------------------------------
def postdominators(f):
    """pdom[b] = blocks that post-dominate b on normal flow (virtual exit joins all return/diverging blocks)."""
    n = len(f.blocks)
    succs = f.succs()
    reach = f.reachable(0)
    EXIT = n
    dead = {b for b in reach if f.is_unreachable_block(b)}
    sx = {}
    for b in reach:
        ss = [s for s in succs[b] if s not in dead]
        sx[b] = ss if ss else [EXIT]
    full = set(reach) | {EXIT}
    pdom = {b: set(full) for b in reach}
    pdom[EXIT] = {EXIT}
    changed = True
    while changed:
        changed = False
        for b in reach:
            ss = [s for s in sx[b] if s in pdom]
            if not ss:
                continue
            new = set.intersection(*(pdom[s] for s in ss)) | {b}
            if new != pdom[b]:
                pdom[b] = new
                changed = True
    return pdom


def arm_regions(f, sw):
    """For a discriminant switch: variant -> set of blocks executed only inside that arm (up to the join)."""
    pdom = postdominators(f)
    join = pdom.get(sw["block"], set()) - {sw["block"]}
    out = {}
    targets = dict(sw["explicit"])
    if sw["otherwise_live"]:
        targets["_"] = sw["otherwise"]
    for v, tgt in targets.items():
        out[v] = f.reachable(tgt, avoid=join)
    return out


def region_outputs(f, blocks):
    """What a region produces: string/char/int/bool constants, enum aggregates, callee names."""
    consts, aggs, callees = [], [], []
    for b in sorted(blocks):
        for s in f.stmts(b):
            if s["s"] != "assign":
                continue
            rv = s["rv"]
            for o in iter_operands_rv(rv):
                if "c" in o and "fn" not in o:
                    consts.append((o["c"], o["ty"]))
            if rv["r"] == "agg" and rv.get("ak") == "adt":
                aggs.append((rv["adt"], rv["variant"]))
        t = f.term(b)
        if t["t"] in ("call", "tailcall"):
            callees.append(callee_name(t) or callee_generic(t) or "?")
            for o in t["args"]:
                if "c" in o and "fn" not in o:
                    consts.append((o["c"], o["ty"]))
    return consts, aggs, callees


def enum_table(f, enum_adt):
    """variant -> (consts, aggregates, callees) for the main match of f over enum_adt."""
    sw = primary_dispatch(f, enum_adt)
    if sw is None:
        return None, None
    regs = arm_regions(f, sw)
    tab = {}
    for v, blocks in regs.items():
        tab[v] = region_outputs(f, blocks)
    return sw, tab


def str_consts(consts):
    out = []
    for c, ty in consts:
        if ty.startswith("&") and "str" in ty and c.startswith('"'):
            v = const_str({"c": c, "ty": "&str"})
            out.append(v)
    return out


def resolve_enum_value(f, o, depth=6):
    """Resolve an operand to a (possibly nested) enum value: ('Adt','Variant',[children]) or None."""
    if depth <= 0 or o is None:
        return None
    pl = op_place(o)
    if pl is None:
        return ("const", o.get("c"), [])
    if any(e[0] != "deref" for e in pl["p"]):
        return None
    d = f.single_def(pl["l"])
    if d is None or d[2] != "assign":
        return None
    rv = d[3]
    if rv["r"] == "agg" and rv.get("ak") == "adt":
        kids = [resolve_enum_value(f, x, depth - 1) for x in rv["ops"]]
        return (rv["adt"], rv["variant"], kids)
    if rv["r"] in ("use", "cast"):
        return resolve_enum_value(f, rv["o"], depth - 1)
    if rv["r"] in ("ref", "cfd"):
        return resolve_enum_value(f, {"cp": rv["p"]}, depth - 1)
    return None


def flat_enum(v):
    """('TokenKind','Operator',[('OperatorId','EqEq',[])]) -> 'Operator(EqEq)'"""
    if v is None:
        return None
    if v[0] == "const":
        return str(v[1])
    if v[2]:
        return "%s(%s)" % (v[1], ",".join(str(flat_enum(k)) for k in v[2]))
    return v[1]


def guarded_results(f, guard_pred, result_adt):
    """Pairs (guard value, result variant): for every call satisfying guard_pred whose boolean result is
    branched on, the values of `result_adt` built on the true side before the next guard call."""
    pairs = []
    guard_blocks = set()
    for bi, t in f.calls():
        n = callee_name(t) or callee_generic(t) or ""
        if guard_pred(n):
            guard_blocks.add(bi)
    for bi in sorted(guard_blocks):
        t = f.term(bi)
        vals = [flat_enum(resolve_enum_value(f, o)) for o in t["args"][1:]]
        vals = [v for v in vals if v]
        if t["d"]["p"] or t["to"] is None:
            continue
        dl = t["d"]["l"]
        # find the switch on the bool result
        true_targets = []
        for b2, blk in enumerate(f.blocks):
            tt = blk["term"]
            if tt["t"] == "switch":
                p = op_place(tt["on"])
                if p is not None and not p["p"] and p["l"] in derived_locals(f, dl):
                    # bool switch: targets [[0, false_bb]], otherwise = true
                    for v, tgt in tt["targets"]:
                        if v != "0":
                            true_targets.append(tgt)
                    if all(v == "0" for v, _ in tt["targets"]):
                        true_targets.append(tt["otherwise"])
        for tgt in true_targets:
            seen = set()
            dq = deque([tgt])
            found = []
            while dq:
                b = dq.popleft()
                if b in seen:
                    continue
                seen.add(b)
                for s in f.stmts(b):
                    if s["s"] == "assign" and s["rv"]["r"] == "agg" and s["rv"].get("adt") == result_adt:
                        found.append(s["rv"]["variant"])
                if found:
                    continue
                if b in guard_blocks and b != bi:
                    continue
                for s2 in f.succs()[b]:
                    dq.append(s2)
            for r in found:
                pairs.append((tuple(vals), r, t.get("ln")))
    return pairs


def fmt_pieces(c):
    """Literal pieces of a lowered format_args! template constant (b"\\xc0\\x08: index \\xc0..."):
    0xc0 = argument placeholder, 0x00 = end, n = literal of n bytes. -> list of str pieces ('{}' for holes)."""
    if not (c.startswith('b"') and c.endswith('"')):
        return None
    body = c[2:-1]
    try:
        raw = bytes(body, "latin-1").decode("unicode_escape").encode("latin-1")
    except Exception:
        return None
    out = []
    i = 0
    while i < len(raw):
        b = raw[i]
        if b == 0xC0:
            out.append("{}")
            i += 1
        elif b == 0x00:
            break
        elif b < 0x80:
            out.append(raw[i + 1:i + 1 + b].decode("utf-8", "replace"))
            i += 1 + b
        else:
            # longer literal: 0x80|hi, lo  (two-byte length)
            n = ((b & 0x7F) << 8) | raw[i + 1]
            out.append(raw[i + 2:i + 2 + n].decode("utf-8", "replace"))
            i += 2 + n
    return out


def fn_fmt_templates(f):
    """All format templates mentioned in f, joined to a readable string each."""
    out = []
    for b in f.blocks:
        ops = []
        for s in b["st"]:
            if s["s"] == "assign":
                ops.extend(iter_operands_rv(s["rv"]))
        if b["term"]["t"] in ("call", "tailcall"):
            ops.extend(b["term"]["args"])
        for o in ops:
            if "c" in o and o["c"].startswith('b"') and o.get("ty", "").startswith("&[u8"):
                p = fmt_pieces(o["c"])
                if p is not None:
                    out.append("".join(p))
    return out


# ---------------------------------------------------------------------------------------------------------------
# token templates of quote! bodies (LINK)
# ---------------------------------------------------------------------------------------------------------------
def resolve_str(f, o, depth=8):
    """String literal an operand denotes, following copies / re-borrows of single-assignment temporaries."""
    for _ in range(depth):
        v = const_str(o)
        if v is not None:
            return v
        pl = op_place(o)
        if pl is None or any(e[0] != "deref" for e in pl["p"]):
            return None
        d = f.single_def(pl["l"])
        if d is None or d[2] != "assign":
            return None
        rv = d[3]
        if rv["r"] in ("use", "cast"):
            o = rv["o"]
        elif rv["r"] in ("ref", "cfd"):
            o = {"cp": rv["p"]}
        else:
            return None
    return None


def quote_token_events(f):
    """Ordered (block, kind, text, line) events of quote! pushes in f: ident / colon2 / interp / other."""
    ev = []
    for bi, b in enumerate(f.blocks):
        t = b["term"]
        if t["t"] != "call":
            continue
        g = callee_generic(t) or ""
        if "quote::__private::push_" in g:
            what = g.split("push_")[-1].split("::")[0]
            if what.startswith("ident"):
                txt = None
                for o in t["args"][1:]:
                    v = resolve_str(f, o)
                    if v is not None:
                        txt = v
                ev.append((bi, "ident", txt, t.get("ln")))
            elif what == "colon2" or what == "colon2_spanned":
                ev.append((bi, "colon2", "::", t.get("ln")))
            else:
                ev.append((bi, "punct", what, t.get("ln")))
        elif g.endswith("ToTokens::to_tokens"):
            ev.append((bi, "interp", None, t.get("ln")))
        elif g.endswith("quote::__private::parse") or g.endswith("TokenStream::from_str"):
            v = None
            for o in t["args"]:
                v = const_str(o) or v
            ev.append((bi, "parsed", v, t.get("ln")))
    return ev


def quote_paths(f):
    """`a::b::c` identifier paths spliced by quote! in f -> list of (segments tuple, line)."""
    out = []
    cur = []
    line = None
    expect_ident = True
    for (bi, kind, txt, ln) in quote_token_events(f):
        if kind == "ident" and txt is not None and expect_ident:
            if not cur:
                line = ln
            cur.append(txt)
            expect_ident = False
        elif kind == "colon2" and cur and not expect_ident:
            expect_ident = True
        else:
            if len(cur) >= 2:
                out.append((tuple(cur), line))
            cur = [txt] if (kind == "ident" and txt is not None) else []
            line = ln
            expect_ident = not cur
    if len(cur) >= 2:
        out.append((tuple(cur), line))
    return out


# ---------------------------------------------------------------------------------------------------------------
# auxiliary tree walkers: per explicitly handled variant, children must be visited on every path
# ---------------------------------------------------------------------------------------------------------------
def _reaches(F, adt, targets, depth=4):
    if adt in targets:
        return True
    if depth == 0 or adt not in F.adts:
        return False
    for v in F.adts[adt]["variants"]:
        for fl in v["fields"]:
            if any(_reaches(F, a, targets, depth - 1) for a in fl["adts"] if a != adt):
                return True
    return False


def walker_check(F, rep, rule, f, enum_adt, bear, child_adts, exempt=None, family=(), direct_only=False):
    """For each variant the walker's main match handles explicitly and that has child-bearing fields:
       (a) every such field is read in the walker (function + nested closures + same-file helpers it calls);
       (b) no path through the arm avoids both a recursive call and a loop over children.
    """
    exempt = exempt or {}
    sw = primary_dispatch(f, enum_adt)
    if sw is None:
        rep.anchor(rule, "main match over %s in %s" % (short(enum_adt), f.path), None)
        return
    own = body_and_closures(F, f.path)
    helpers = set(own)
    for p in list(own):
        for _, t in F.fns[p].calls():
            n = callee_name(t)
            if n and n in F.fns and F.fns[n].file == f.file and n.split("::")[-1] != f.path.split("::")[-1]:
                # small helpers of the same file (e.g. `scan_function`) belong to the walker
                if len(F.fns[n].blocks) < 80:
                    helpers.update(body_and_closures(F, n))
    reads = F.field_reads(helpers)
    regs = arm_regions(f, sw)
    pdom = postdominators(f)
    join = pdom.get(sw["block"], set()) - {sw["block"]}
    wname = f.path.split("::")[-1]
    family = {f.path} | {p for p in helpers} | {x.path for suf in family for x in F.find_fns(suffix=suf)}
    # "looks at" = consumes (CONSUME engine below): testing is_some()/is_empty() alone is not a visit
    reads = field_consumption(F, set(helpers) | {p for q in family for p in body_and_closures(F, q)})
    for var in F.adts[enum_adt]["variants"]:
        v = var["name"]
        if v not in sw["explicit"]:
            continue
        kidf = [fl for fl in var["fields"] if any(a in child_adts for a in fl["adts"]) or
                (not direct_only and field_is_bearing(fl, bear) and
                 any(a in bear and a not in child_adts and _reaches(F, a, child_adts) for a in fl["adts"]))]
        kids = [fl["name"] for fl in kidf]
        if not kids:
            continue
        all_optional = all(fl["ty"].startswith("core::option::Option<") for fl in kidf)
        # an arm that yields the constant `true` without looking further means "this node itself is a hit"
        reg_blocks = regs.get(v, set())
        const_true = [b for b in reg_blocks for s in f.stmts(b) if s["s"] == "assign" and not s["d"]["p"]
                      and s["d"]["l"] == 0 and s["rv"]["r"] == "use" and s["rv"]["o"].get("c") == "true"]
        only_true = bool(const_true) and not any(
            f.term(b)["t"] == "call" and (callee_name(f.term(b)) or "") not in ("",) and
            not (callee_generic(f.term(b)) or "").startswith("core::") for b in reg_blocks)
        if only_true:
            for k in kids:
                rep.oblige(rule, "%s:%s::%s.%s" % (wname, short(enum_adt), v, k), True)
            continue
        # struct payloads (`Statement::If(IfStmt)`): their child-bearing fields count as children of the variant
        for fl in kidf:
            for a in fl["adts"]:
                rec = F.adts.get(a)
                if rec is None or rec["enum"] or a in child_adts or not a.startswith(enum_adt.rsplit("::", 1)[0]):
                    continue
                for sv in rec["variants"]:
                    for sf in sv["fields"]:
                        if not (any(x in child_adts for x in sf["adts"]) or field_is_bearing(sf, bear)):
                            continue
                        if direct_only and not any(x in child_adts for x in sf["adts"]):
                            continue
                        inst = "%s:%s.%s" % (wname, short(a), sf["name"])
                        ok = (a, sv["name"], sf["name"]) in reads
                        if not ok and inst in exempt:
                            rep.oblige(rule, inst, True)
                            rep.exempt(rule, inst, exempt[inst])
                            continue
                        rep.oblige(rule, inst, ok, sample={"rule": rule, "walker": f.path, "variant": v,
                                                           "field": "%s.%s" % (short(a), sf["name"]), "visited": ok})
                        if not ok:
                            rep.add(Finding(rule, "%s|%s|%s.%s" % (rule, wname, short(a), sf["name"]),
                                            "walker %s handles %s::%s but never looks at %s.%s: anything nested "
                                            "there is invisible to the analysis this walker implements"
                                            % (wname, short(enum_adt), v, short(a), sf["name"]),
                                            file=f.file, line=sw["ln"], fn=f.path))
        for k in kids:
            inst = "%s:%s::%s.%s" % (wname, short(enum_adt), v, k)
            ok = (enum_adt, v, k) in reads
            if not ok and inst in exempt:
                rep.oblige(rule, inst, True)
                rep.exempt(rule, inst, exempt[inst])
                continue
            rep.oblige(rule, inst, ok, sample={"rule": rule, "walker": f.path, "variant": v, "field": k,
                                               "visited": ok})
            if not ok:
                rep.add(Finding(rule, "%s|%s|%s::%s.%s" % (rule, wname, short(enum_adt), v, k),
                                "walker %s handles %s::%s explicitly but never looks at its `%s`: anything nested "
                                "there is invisible to the analysis this walker implements" % (wname, short(enum_adt),
                                                                                               v, k),
                                file=f.file, line=sw["ln"], fn=f.path))
        # path rule
        tgt = sw["explicit"][v]
        stops = set()
        for b in regs.get(v, set()):
            t = f.term(b)
            if t["t"] != "call":
                continue
            n = callee_name(t) or ""
            g = callee_generic(t) or ""
            if n in family or g.endswith("IntoIterator::into_iter") or g.endswith("::iter") or \
                    g.endswith("::iter_mut") or g.endswith("Iterator::any") or g.endswith("Iterator::all") or \
                    g.endswith("::map") or g.endswith("::and_then") or g.endswith("::is_some_and") or \
                    g.endswith("::for_each") or g.endswith("::map_or"):
                stops.add(b)
        stops |= set(const_true)
        reach = f.reachable(tgt, avoid=stops)
        escapes = any(s in join for b in reach for s in f.succs()[b]) or \
            any(f.term(b)["t"] == "return" for b in reach)
        inst = "%s:%s::%s:every-path-visits-children" % (wname, short(enum_adt), v)
        if all_optional:
            escapes = False  # all children optional: a path without a visit is the `None` case
        if escapes and inst in exempt:
            rep.oblige(rule, inst, True)
            rep.exempt(rule, inst, exempt[inst])
            continue
        rep.oblige(rule, inst, not escapes)
        if escapes:
            rep.add(Finding(rule, "%s|%s|%s::%s|path-skips-children" % (rule, wname, short(enum_adt), v),
                            "in walker %s a path through the arm for %s::%s reaches the end of the arm without "
                            "visiting any child (no recursive call, no loop over children): under some condition "
                            "the sub-terms of this node are skipped" % (wname, short(enum_adt), v),
                            file=f.file, line=sw["ln"], fn=f.path))


# ---------------------------------------------------------------------------------------------------------------
# CONSUME — a field is *consumed* when a value derived from it reaches something that depends on its content:
# an argument of a call other than a pure inspection (is_some / is_empty / len ...), an operand of a comparison or
# arithmetic, a switch on the value itself, a store, a return, or a read of / match on its payload.  Looking only at
# whether an Option is Some, or whether a Vec is empty, is NOT consumption of what is inside.
INSPECT_CALLS = ("::is_some", "::is_none", "::is_empty", "::len", "::is_ok", "::is_err")
_WRAPPERS = ("core::option::Option<", "core::result::Result<")


def _strip_ref(ty):
    ty = ty.strip()
    while ty.startswith("&"):
        ty = ty[1:].lstrip()
        if ty.startswith("mut "):
            ty = ty[4:]
        if ty.startswith("'"):
            ty = ty.split(" ", 1)[1] if " " in ty else ty
    return ty


def _is_wrapper(ty):
    return _strip_ref(ty).startswith(_WRAPPERS)


def field_consumption(F, fnpaths):
    """(adt, variant, field) -> list of (fnpath, line, how) consumption sites within the given functions."""
    out = {}

    def add(keys, p, ln, how):
        for k in keys:
            out.setdefault(k, []).append((p, ln, how))

    for p in fnpaths:
        f = F.fns[p]
        # pass 1: which locals hold (a reference to / a copy of) exactly a field value: level 0; anything deeper or
        # derived: level 1.  taint[l] = {triple: level}
        taint = {}

        def place_info(pl):
            """-> list of (triple, deeper) for every field projection in pl, plus base taint."""
            res = []
            pr = pl["p"]
            for i, e in enumerate(pr):
                if e[0] != "f":
                    continue
                rest = pr[i + 1:]
                deeper = any(x[0] == "f" for x in rest) or any(x[0] in ("idx", "cidx", "sub") for x in rest)
                res.append(((e[1], e[2], e[3]), deeper, e[4] if len(e) > 4 else ""))
            return res

        def base_taint(pl):
            t = taint.get(pl["l"])
            if not t:
                return {}
            deeper = any(x[0] == "f" for x in pl["p"]) or any(x[0] in ("idx", "cidx", "sub") for x in pl["p"])
            return {k: (1 if deeper else lvl) for k, lvl in t.items()}

        def sources(pl):
            """triple -> level for the value read from place pl"""
            s = dict(base_taint(pl))
            for k, deeper, _ in place_info(pl):
                lvl = 1 if deeper else 0
                s[k] = max(s.get(k, 0), lvl) if k in s else lvl
            # only the innermost (last) field projection is "the field itself"; outer ones are being traversed
            info = place_info(pl)
            for k, deeper, _ in info[:-1]:
                s[k] = 1
            return s

        changed = True
        rounds = 0
        while changed and rounds < 12:
            changed = False
            rounds += 1
            for b in f.blocks:
                for st in b["st"]:
                    if st["s"] != "assign" or st["d"]["p"]:
                        continue
                    rv = st["rv"]
                    src = {}
                    if rv["r"] in ("ref", "rawptr", "cfd"):
                        if rv.get("bk") == "fake":
                            continue
                        src = sources(rv["p"])
                    elif rv["r"] in ("use", "cast"):
                        pl = op_place(rv["o"])
                        if pl is not None:
                            src = sources(pl)
                    elif rv["r"] == "agg":
                        for o in rv["ops"]:
                            pl = op_place(o)
                            if pl is not None:
                                for k, lvl in sources(pl).items():
                                    src[k] = 1
                    if not src:
                        continue
                    cur = taint.setdefault(st["d"]["l"], {})
                    for k, lvl in src.items():
                        if cur.get(k, -1) < lvl:
                            cur[k] = lvl
                            changed = True
        # pass 2: sinks
        for bi, b in enumerate(f.blocks):
            for st in b["st"]:
                if st["s"] != "assign":
                    continue
                rv = st["rv"]
                ln = st.get("ln", f.line)
                if rv["r"] == "discr":
                    pl = rv["p"]
                    s = sources(pl)
                    if not s:
                        continue
                    # type being discriminated: the innermost field's type if the place ends at it, else the local's
                    info = place_info(pl)
                    tail_is_field = bool(info) and not info[-1][1] and pl["p"] and \
                        all(x[0] == "deref" for x in pl["p"][max(i for i, e in enumerate(pl["p"]) if e[0] == "f") + 1:])
                    if tail_is_field:
                        ty = info[-1][2]
                    elif not any(x[0] == "f" for x in pl["p"]):
                        ty = f.local_ty(pl["l"])
                    else:
                        ty = ""
                    for k, lvl in s.items():
                        if lvl >= 1 or not _is_wrapper(ty):
                            add([k], p, ln, "match on its value")
                elif rv["r"] == "bin":
                    for o in (rv["a"], rv["b"]):
                        pl = op_place(o)
                        if pl is not None:
                            add(sources(pl).keys(), p, ln, "operand of %s" % rv["op"])
                elif rv["r"] in ("un", "len"):
                    pl = op_place(rv["o"]) if "o" in rv else rv.get("p")
                    if pl is not None and rv["r"] == "un":
                        add(sources(pl).keys(), p, ln, "operand of %s" % rv.get("op"))
                if st["d"]["p"] or st["d"]["l"] == 0:
                    # stored into a structure / returned
                    srcs = {}
                    if rv["r"] in ("ref", "rawptr", "cfd"):
                        srcs = sources(rv["p"])
                    else:
                        for o in iter_operands_rv(rv):
                            pl = op_place(o)
                            if pl is not None:
                                srcs.update(sources(pl))
                    add(srcs.keys(), p, ln, "stored / returned")
            t = b["term"]
            ln = t.get("ln", f.line)
            if t["t"] in ("call", "tailcall"):
                g = callee_generic(t) or callee_name(t) or ""
                inspect = g.endswith(INSPECT_CALLS)
                for o in t["args"]:
                    pl = op_place(o)
                    if pl is None:
                        continue
                    for k, lvl in sources(pl).items():
                        if inspect and lvl == 0:
                            continue
                        add([k], p, ln, "argument of %s" % (g.split("::")[-1] or "call"))
            elif t["t"] == "switch":
                pl = op_place(t["on"])
                if pl is not None:
                    add(sources(pl).keys(), p, ln, "branch on its value")
            elif t["t"] == "yield":
                pl = op_place(t["v"])
                if pl is not None:
                    add(sources(pl).keys(), p, ln, "yielded")
    return out


def same_file_family(F, f, limit=120):
    """f, its closures, and the functions of the same source file it (transitively) calls: the unit a maintainer would
    split or merge when extracting helpers, so rules that read templates / constants of `f` read the family."""
    out = []
    seen = set()
    todo = [f.path]
    while todo:
        p = todo.pop()
        if p in seen or p not in F.fns:
            continue
        seen.add(p)
        for q in body_and_closures(F, p):
            if q not in out:
                out.append(q)
            for _, t in F.fns[q].calls():
                n = callee_name(t)
                if n and n in F.fns and n not in seen and F.fns[n].file == f.file and len(F.fns[n].blocks) < limit:
                    todo.append(n)
    return out


# ---------------------------------------------------------------------------------------------------------------
# boolean assume-and-propagate: blocks reachable when some locals (parameters) hold known booleans
# ---------------------------------------------------------------------------------------------------------------
def reachable_under_bools(f, init, start=0, avoid=()):
    """Blocks of f reachable from `start` when the locals in `init` (local -> bool) hold those values on entry.
    Booleans are propagated through copies, `!`, `|`, `&`; a bool switch on a known value follows one edge only."""
    seen = set()
    todo = [(start, tuple(sorted(init.items())))]
    out = set()
    succs = f.succs()
    while todo:
        bi, env = todo.pop()
        if (bi, env) in seen:
            continue
        seen.add((bi, env))
        out.add(bi)
        e = dict(env)
        for st in f.stmts(bi):
            if st["s"] != "assign" or st["d"]["p"]:
                continue
            dl = st["d"]["l"]
            rv = st["rv"]
            val = None
            if rv["r"] == "use":
                if rv["o"].get("c") in ("true", "false"):
                    val = rv["o"]["c"] == "true"
                else:
                    pl = op_place(rv["o"])
                    if pl is not None and not pl["p"]:
                        val = e.get(pl["l"])
            elif rv["r"] == "un" and rv.get("op") == "Not":
                pl = op_place(rv["o"])
                v = e.get(pl["l"]) if pl is not None and not pl["p"] else None
                val = (not v) if v is not None else None
            elif rv["r"] == "bin" and rv.get("op") in ("BitOr", "BitAnd"):
                pa, pb = op_place(rv["a"]), op_place(rv["b"])
                va = e.get(pa["l"]) if pa is not None and not pa["p"] else None
                vb = e.get(pb["l"]) if pb is not None and not pb["p"] else None
                if rv["op"] == "BitOr":
                    val = True if (va or vb) else (False if (va is False and vb is False) else None)
                else:
                    val = False if (va is False or vb is False) else (True if (va and vb) else None)
            if val is None:
                e.pop(dl, None)
            else:
                e[dl] = val
        t = f.term(bi)
        succ = succs[bi]
        if t["t"] == "switch" and t.get("ty") == "bool":
            pl = op_place(t["on"])
            v = e.get(pl["l"]) if pl is not None and not pl["p"] else None
            if v is not None:
                succ = [t["otherwise"]] if v else [x for val2, x in t["targets"] if val2 == "0"]
        elif t["t"] in ("call", "tailcall") and not t["d"]["p"]:
            e.pop(t["d"]["l"], None)
        env2 = tuple(sorted(e.items()))
        for s2 in succ:
            if s2 not in avoid:
                todo.append((s2, env2))
    return out


def region_names(F, f, blocks, depth=3, _seen=None):
    """Names a region of f can put into the generated code: literal identifiers pushed by quote!, and exact string
    constants (format_ident! sources), following calls into same-file functions; a callee that receives constant
    booleans is read under those values only."""
    _seen = _seen if _seen is not None else set()
    names = set()
    for (bi, kind, txt, _ln) in quote_token_events(f):
        if kind == "ident" and txt and bi in blocks:
            names.add(txt)
    for bi, v in all_string_constants(f):
        if bi in blocks:
            names.add(v)
    if depth <= 0:
        return names
    for bi in sorted(blocks):
        t = f.term(bi)
        if t["t"] not in ("call", "tailcall"):
            continue
        cn = callee_name(t)
        g = F.fns.get(cn) if cn else None
        if g is None or g.file != f.file or g.path == f.path:
            continue
        init = {}
        for i, o in enumerate(t["args"]):
            c = o.get("c") if isinstance(o, dict) else None
            if c in ("true", "false"):
                init[i + 1] = (c == "true")
            else:
                pl = op_place(o)
                if pl is not None and not pl["p"]:
                    d = f.single_def(pl["l"])
                    if d and d[2] == "assign" and d[3]["r"] == "use" and d[3]["o"].get("c") in ("true", "false"):
                        init[i + 1] = d[3]["o"]["c"] == "true"
        key = (g.path, tuple(sorted(init.items())))
        if key in _seen:
            continue
        _seen.add(key)
        gb = reachable_under_bools(g, init) if init else set(range(len(g.blocks)))
        names |= region_names(F, g, gb, depth - 1, _seen)
    # closures built inside the region run as part of it
    for bi in sorted(blocks):
        for st in f.stmts(bi):
            if st["s"] == "assign" and st["rv"]["r"] == "agg" and st["rv"].get("def") in F.fns \
                    and st["rv"]["def"].startswith(f.path + "::{"):
                c = F.fns[st["rv"]["def"]]
                if (c.path, ()) not in _seen:
                    _seen.add((c.path, ()))
                    names |= region_names(F, c, set(range(len(c.blocks))), depth, _seen)
    return names


# ---------------------------------------------------------------------------------------------------------------
# EQOP: a binary operator whose two operands are the same expression (contradiction rule; expected count zero)
# ---------------------------------------------------------------------------------------------------------------
def eqop(F, rep, files, floor=1000):
    """`a || a`, `x == x`, `n - n` ... in the files a property is anchored in: one operand was meant to be something
    else, so the operation computes a different function of its inputs than the one it is named after. Read from the
    type-checked HIR by the fact driver (operands textually identical, no calls, not macro-generated)."""
    from harness import Finding
    seen = sum(F.binary_seen.values()) if getattr(F, "binary_seen", None) else 0
    rep.floor("EQOP", "binary expressions visited by the HIR scan", seen, floor)
    n = 0
    for r in getattr(F, "eqops", []):
        if not any(r["file"].endswith(x) for x in files):
            continue
        n += 1
        fn = r["fn"].split("::")[-1]
        inst = "%s|%s %s %s" % (fn, r["text"], r["op"], r["text"])
        rep.oblige("EQOP", inst, False)
        rep.add(Finding("EQOP", "EQOP|" + inst,
                        "`%s %s %s`: both operands are the same expression, so the result ignores the other operand "
                        "the operation was given" % (r["text"], r["op"], r["text"]),
                        file=r["file"], line=r["ln"], fn=r["fn"]))
    rep.oblige("EQOP", "anchored files: %d" % len(files), True,
               sample={"rule": "EQOP", "files": list(files), "binary_expressions_scanned": seen, "identical_operands": n})
