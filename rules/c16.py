"""C16 — `incan test` reports the truth (DESIGN.md §4 C16).

The verdict for all test files is NOT decided. Decided structural clauses:
  1 FIELDUSE  the test selection handed to the code generator (IrCodegen.test_mode / test_function / fixtures)
              is read by something that emits code — otherwise the generated project contains no #[test] and
              `cargo test` succeeds vacuously: every test "passes"
  2 SKIP      on the @skip branch run_single_test is not reachable before the next loop iteration
  3 VERDICT   the xfail / normal mapping from raw results to reported results and counters is the documented one
  4 EXIT      Err(FAILURE) is returned iff failed > 0 or xpassed > 0
  5 FILTER    the -k / --slow predicate is exactly `(k is None or name contains k) and (slow allowed or not slow)`
  6 STATUS    run_single_test reports Passed only on the `status.success()` edge of the cargo invocation
              (+ HARNESSFRESH: the harness files are rewritten from the current source before every cargo run)
  7 STOP      -x stops on the reported result (after the xfail inversion), not on the raw outcome
"""
from engines import (arm_regions, blocks_dominated_by_edge, callee_generic, callee_name, derived_locals,
                     discr_switches, iter_read_places, op_place, place_fields, region_outputs)
from harness import Finding
from mireval import Evaluator, OutOfFragment, UNKNOWN, boolean, enum, opt_none, opt_some

EXPLANATION = (
    "Static analysis of src/cli/test_runner.rs and the code generator's test hooks. (1) field-use: the fields in "
    "which run_single_test stores the selected test (IrCodegen.test_mode/test_function/fixtures) must be read on "
    "some path of the generator — a write-only selection means the harness contains no test and every test is "
    "reported as passed; (2) the run_single_test call is unreachable from the @skip edge within one loop "
    "iteration; (3) decision table of the verdict mapping extracted from the match arms (xfail: Passed->XPassed + "
    "xpassed, Failed->XFailed + xfailed; normal: Passed->passed, Failed->failed); (4) the Err(FAILURE) return is "
    "dominated by `failed > 0 || xpassed > 0` and the Ok(SUCCESS) return by its negation; (5) the filter closure "
    "is tabulated over all 8 combinations of (-k given, name matches, --slow, test is slow) by constant propagation; "
    "(6) TestResult::Passed is built only under output.status.success(). The verdicts for arbitrary test files "
    "(needs running cargo) are not decided.")

TR = "incan::cli::test_runner::TestResult"
CODEGEN = "incan::backend::ir::codegen::IrCodegen"


def run(facts, rep, tier):
    F = facts["default"]
    rep.assumptions += ["cargo's exit status reflects the harness (trusted)",
                        "rustc nightly MIR describes the program the stable toolchain builds"]
    fielduse(F, rep)
    f = F.one_fn("test_runner::run_tests")
    if not rep.anchor("SKIP", "cli::test_runner::run_tests", f):
        return
    rep.functions.add(f.path)
    skip(F, rep, f)
    verdict(F, rep, f)
    exitcode(F, rep, f)
    filt(F, rep, f)
    stopreported(F, rep, f)
    status(F, rep)
    flagwiring(F, rep)


def root_local(f, l, depth=10):
    """Follow `_a = &_b` / `_a = copy|move _b` chains of single-assignment temporaries back to the user local."""
    for _ in range(depth):
        if l in f.names:
            return l
        d = f.single_def(l)
        if d is None or d[2] != "assign":
            return l
        rv = d[3]
        if rv["r"] in ("ref", "cfd") and all(e[0] == "deref" for e in rv["p"]["p"]):
            l = rv["p"]["l"]
        elif rv["r"] in ("use", "cast"):
            pl = op_place(rv["o"])
            if pl is None or any(e[0] != "deref" for e in pl["p"]):
                return l
            l = pl["l"]
        else:
            return l
    return l


def stopreported(F, rep, f):
    """STOP — `-x` stops on the REPORTED result: the TestResult examined under `stop_on_fail` is the value that is
    printed and recorded (after the xfail inversion), not the raw outcome of run_single_test. Otherwise an expected
    failure (@xfail) stops the run, the remaining tests never execute and the run exits 0."""
    from c09 import bool_edges
    stop = [l for l, n in f.names.items() if n == "stop_on_fail"]
    if not rep.anchor("STOP", "parameter stop_on_fail of run_tests", stop):
        return
    under = set()
    for (a, b) in bool_edges(f, stop[0], True):
        under |= blocks_dominated_by_edge(f, a, b)
    examined = set()
    for bi in sorted(under):
        for st in f.stmts(bi):
            if st["s"] == "assign" and st["rv"]["r"] == "discr" and (st["rv"].get("adt") or "").endswith("TestResult"):
                examined.add(root_local(f, st["rv"]["p"]["l"]))
    printed = set()
    for bi, t in f.calls():
        if (callee_name(t) or "").endswith("print_test_result") and len(t["args"]) > 1:
            pl = op_place(t["args"][1])
            if pl is not None:
                printed.add(root_local(f, pl["l"]))
    if not rep.anchor("STOP", "TestResult examined under stop_on_fail", examined) or \
            not rep.anchor("STOP", "print_test_result(&test, &result, ..) in run_tests", printed):
        return
    ok = examined <= printed
    rep.oblige("STOP", "stop-on-reported-result", ok,
               sample={"rule": "STOP", "examined_under_stop_on_fail": sorted(f.names.get(x, "_%d" % x) for x in examined),
                       "printed": sorted(f.names.get(x, "_%d" % x) for x in printed)})
    if not ok:
        rep.add(Finding("STOP", "STOP|run_tests|raw-outcome",
                        "the -x stop decision examines %s, not the reported result %s: it is taken before the xfail "
                        "inversion, so an @xfail test that fails as expected stops the run and later failures are "
                        "never executed (exit 0)" % (sorted(f.names.get(x, "_%d" % x) for x in examined - printed),
                                                     sorted(f.names.get(x, "_%d" % x) for x in printed)),
                        file=f.file, line=f.line, fn=f.path))


def fielduse(F, rep):
    for key in ("test_mode", "test_function", "fixtures"):
        reads, writes = [], []
        for p, g in F.fns.items():
            if g.crate != "incan":
                continue
            for bi, si, pl, how in iter_read_places(g):
                fl = place_fields(pl)
                for i, (adt, v, name) in enumerate(fl):
                    if adt == CODEGEN and name == key:
                        last = (i == len(fl) - 1)
                        if how == "write" and last:
                            writes.append(p)
                        elif how in ("ref", "arg") and last and is_mutating_use(g, bi, si):
                            writes.append(p)
                        else:
                            reads.append(p)
        inst = "IrCodegen.%s" % key
        ok = bool(reads) or not writes
        rep.oblige("FIELDUSE", inst, ok, sample={"rule": "FIELDUSE", "field": inst,
                                                 "written_in": sorted(set(x.split("::")[-1] for x in writes)),
                                                 "read_in": sorted(set(x.split("::")[-1] for x in reads))})
        if not ok:
            rep.add(Finding("FIELDUSE", "FIELDUSE|%s" % inst,
                            "%s is written (%s) but never read anywhere in the compiler: the test selection made by "
                            "run_single_test never reaches the emitter, the generated project contains no #[test] "
                            "for the selected function and `cargo test` succeeds vacuously — the test is reported "
                            "as passed whatever its body does"
                            % (inst, ", ".join(sorted(set(x.split("::")[-1] for x in writes)))),
                            file="src/backend/ir/codegen.rs", fn=CODEGEN))
    rep.floor("FIELDUSE", "test-selection fields of IrCodegen", 3, 3)


def is_mutating_use(g, bi, si):
    """`&mut self.field` handed to insert/push/extend counts as a write, not a read."""
    st = g.stmts(bi)[si] if si >= 0 else None
    if st is None or st["s"] != "assign" or st["rv"]["r"] != "ref" or st["rv"].get("bk") != "mut":
        return False
    dl = st["d"]["l"]
    for b2, t in g.calls():
        for o in t["args"][:1]:
            p = op_place(o)
            if p is not None and p["l"] in derived_locals(g, dl):
                n = (callee_generic(t) or "").split("::")[-1]
                if n in ("insert", "push", "extend", "clear", "remove", "push_str"):
                    return True
    return False


def loop_header(f, call_block):
    """The block of the `next()` call whose loop contains call_block (innermost by proximity)."""
    heads = [bi for bi, t in f.calls() if (callee_generic(t) or "").endswith("Iterator::next")]
    best = None
    for h in heads:
        if call_block in f.reachable(h) and h in f.reachable(call_block):
            if best is None or h > best:
                best = h
    return best


def skip(F, rep, f):
    runs = [bi for bi, t in f.calls() if (callee_name(t) or "").endswith("test_runner::run_single_test")]
    if not rep.anchor("SKIP", "call of run_single_test in run_tests", runs):
        return
    rb = runs[0]
    head = loop_header(f, rb)
    if not rep.anchor("SKIP", "loop around run_single_test", head):
        return
    skipped_blocks = [bi for bi, b in enumerate(f.blocks) for st in b["st"]
                      if st["s"] == "assign" and st["rv"]["r"] == "agg" and st["rv"].get("adt") == TR and
                      st["rv"]["variant"] == "Skipped"]
    if not rep.anchor("SKIP", "construction of TestResult::Skipped in the loop", skipped_blocks):
        return
    for sb in skipped_blocks:
        region = f.reachable(sb, avoid={head})
        ok = rb not in region
        rep.oblige("SKIP", "skipped@bb%d" % sb, ok,
                   sample={"rule": "SKIP", "skipped_block": sb, "run_single_test_block": rb,
                           "run_reachable_in_same_iteration": not ok})
        if not ok:
            rep.add(Finding("SKIP", "SKIP|run_tests|skip-runs-test",
                            "after a test has been classified as skipped, run_single_test is still reachable within "
                            "the same loop iteration: a @skip test is run", file=f.file, line=f.term(sb).get("ln"),
                            fn=f.path))
        # the skip classification hangs off a `find` over the markers whose predicate matches TestMarker::Skip
        finds = [bi for bi, t in f.calls() if (callee_generic(t) or "").endswith("Iterator::find")
                 and sb in f.reachable(bi) and bi in f.reachable(head)]
        ok2 = False
        for fb in finds:
            t = f.term(fb)
            for o in t["args"]:
                pl = op_place(o)
                if pl is None:
                    continue
                d = f.single_def(pl["l"])
                if d and d[2] == "assign" and d[3]["r"] == "agg" and d[3].get("ak") == "closure":
                    g = F.fns.get(d[3]["def"])
                    if g is not None:
                        for s2 in discr_switches(g):
                            if s2["adt"].endswith("TestMarker") and "Skip" in s2["explicit"]:
                                ok2 = True
        rep.oblige("SKIP", "skip-decided-by-Skip-marker", ok2)
        if not ok2:
            rep.add(Finding("SKIP", "SKIP|run_tests|marker",
                            "the skipped classification is not derived from a search for TestMarker::Skip among the "
                            "test's markers", file=f.file, line=f.term(sb).get("ln"), fn=f.path))


def counter_incs(f, blocks):
    """names of locals incremented by 1 in the region"""
    out = []
    for b in sorted(blocks):
        for s in f.stmts(b):
            if s["s"] == "assign" and s["rv"]["r"] == "bin" and s["rv"]["op"] in ("Add", "AddWithOverflow"):
                a, bb = s["rv"]["a"], s["rv"]["b"]
                if "c" in bb and bb["c"].split("_")[0] == "1":
                    p = op_place(a)
                    if p is not None:
                        out.append(f.name_of(p["l"]))
    return out


def verdict(F, rep, f):
    sws = [s for s in discr_switches(f) if s["adt"] == TR and {"Passed", "Failed"} <= set(s["explicit"])]
    rep.floor("VERDICT", "matches over the raw TestResult (xfail / normal)", len(sws), 2)
    if len(sws) < 2:
        return
    # which one is the xfail case? the one whose arms build XPassed / XFailed
    want = {
        "xfail": {"Passed": ({"XPassed"}, ["xpassed"]), "Failed": ({"XFailed"}, ["xfailed"])},
        "normal": {"Passed": (set(), ["passed"]), "Failed": (set(), ["failed"])},
    }
    seen = set()
    for s in sws:
        regs = arm_regions(f, s)
        built = {v: {a[1] for a in region_outputs(f, regs[v])[1] if a[0] == TR} for v in ("Passed", "Failed")}
        incs = {v: counter_incs(f, regs[v]) for v in ("Passed", "Failed")}
        kind = "xfail" if (built["Passed"] | built["Failed"]) & {"XPassed", "XFailed"} else "normal"
        seen.add(kind)
        for v in ("Passed", "Failed"):
            wb, wi = want[kind][v]
            ok = built[v] == wb and incs[v] == wi
            rep.oblige("VERDICT", "%s:%s" % (kind, v), ok,
                       sample={"rule": "VERDICT", "case": kind, "raw": v, "reported": sorted(built[v]) or "same",
                               "counter": incs[v], "line": s["ln"]})
            if not ok:
                rep.add(Finding("VERDICT", "VERDICT|%s|%s" % (kind, v),
                                "%s test with raw result %s is reported as %s and counted in %s; documented: %s / %s"
                                % (kind, v, sorted(built[v]) or "unchanged", incs[v], sorted(wb) or "unchanged", wi),
                                file=f.file, line=s["ln"], fn=f.path))
    for k in ("xfail", "normal"):
        if k not in seen:
            rep.add(Finding("VERDICT", "VERDICT|missing-case|%s" % k, "no match arm pair found for the %s case" % k,
                            file=f.file, line=f.line, fn=f.path))
    # the xfail match is dominated by the is_xfail == true edge, the normal one by false
    from c09 import bool_edges
    xl = [l for l, n in f.names.items() if n == "is_xfail"]
    if rep.anchor("VERDICT", "local is_xfail", xl):
        td, fd = set(), set()
        for (a, b) in bool_edges(f, xl[0], True):
            td |= blocks_dominated_by_edge(f, a, b)
        for (a, b) in bool_edges(f, xl[0], False):
            fd |= blocks_dominated_by_edge(f, a, b)
        for s in sws:
            regs = arm_regions(f, s)
            built = set()
            for v in ("Passed", "Failed"):
                built |= {a[1] for a in region_outputs(f, regs[v])[1] if a[0] == TR}
            kind = "xfail" if built & {"XPassed", "XFailed"} else "normal"
            ok = s["block"] in (td if kind == "xfail" else fd)
            rep.oblige("VERDICT", "%s-guard" % kind, ok)
            if not ok:
                rep.add(Finding("VERDICT", "VERDICT|guard|%s" % kind,
                                "the %s verdict mapping is not guarded by is_xfail == %s" % (kind, kind == "xfail"),
                                file=f.file, line=s["ln"], fn=f.path))


def exitcode(F, rep, f):
    from c05 import cmp_sites, bool_switch_edges
    gts = [c for c in cmp_sites(f, "Gt", const="0") if c[2] in ("failed", "xpassed")]
    names = sorted(set(c[2] for c in gts))
    rep.oblige("EXIT", "tests-on-failed-and-xpassed", names == ["failed", "xpassed"],
               sample={"rule": "EXIT", "counters_compared_with_zero": names})
    if names != ["failed", "xpassed"]:
        rep.add(Finding("EXIT", "EXIT|run_tests|counters",
                        "the exit status is decided from %s; documented: failed > 0 or xpassed > 0" % names,
                        file=f.file, line=f.line, fn=f.path))
        return
    # final return sites: Err(CliError{FAILURE}) vs Ok(SUCCESS) after the summary
    errs, oks = [], []
    for bi, b in enumerate(f.blocks):
        for s in b["st"]:
            if s["s"] == "assign" and s["rv"]["r"] == "agg" and s["rv"].get("adt", "").endswith("result::Result"):
                (errs if s["rv"]["variant"] == "Err" else oks).append((bi, s.get("ln")))
    last_err = max(errs, key=lambda x: x[1] or 0) if errs else None
    last_ok = max(oks, key=lambda x: x[1] or 0) if oks else None
    if not rep.anchor("EXIT", "final Err/Ok returns of run_tests", last_err and last_ok):
        return
    # decide the returns under each truth assignment of the two comparisons (assume-and-propagate over boolean locals:
    # robust to hoisting the condition into a local, De Morgan rewrites, early returns ...)
    cmp_of = {}
    for c in gts:
        cmp_of[(c[0], c[1])] = c[2]          # (block, dest local) -> counter name

    def reachable_under(assign):
        """blocks reachable from the entry when `failed > 0` / `xpassed > 0` evaluate as in `assign`"""
        start_env = ()
        seen = set()
        todo = [(0, start_env)]
        out = set()
        while todo:
            bi, env = todo.pop()
            if (bi, env) in seen:
                continue
            seen.add((bi, env))
            out.add(bi)
            e = dict(env)
            for st in f.stmts(bi):
                if st["s"] != "assign" or st["d"]["p"]:
                    continue
                dl = st["d"]["l"]
                rv = st["rv"]
                val = None
                if (bi, dl) in cmp_of:
                    val = assign[cmp_of[(bi, dl)]]
                elif rv["r"] == "use":
                    if rv["o"].get("c") in ("true", "false"):
                        val = rv["o"]["c"] == "true"
                    else:
                        pl = op_place(rv["o"])
                        if pl is not None and not pl["p"]:
                            val = e.get(pl["l"])
                elif rv["r"] == "un" and rv["op"] == "Not":
                    pl = op_place(rv["o"])
                    v = e.get(pl["l"]) if pl is not None and not pl["p"] else None
                    val = (not v) if v is not None else None
                elif rv["r"] == "bin" and rv["op"] in ("BitOr", "BitAnd"):
                    pa, pb = op_place(rv["a"]), op_place(rv["b"])
                    va = e.get(pa["l"]) if pa is not None and not pa["p"] else None
                    vb = e.get(pb["l"]) if pb is not None and not pb["p"] else None
                    if rv["op"] == "BitOr":
                        val = True if (va or vb) else (False if (va is False and vb is False) else None)
                    else:
                        val = False if (va is False or vb is False) else (True if (va and vb) else None)
                if val is None:
                    e.pop(dl, None)
                else:
                    e[dl] = val
            t = f.term(bi)
            succ = f.succs()[bi]
            if t["t"] == "switch" and t.get("ty") == "bool":
                pl = op_place(t["on"])
                v = e.get(pl["l"]) if pl is not None and not pl["p"] else None
                if v is not None:
                    succ = [t["otherwise"]] if v else [x for val2, x in t["targets"] if val2 == "0"]
            elif t["t"] in ("call", "tailcall") and not t["d"]["p"]:
                e.pop(t["d"]["l"], None)
            env2 = tuple(sorted(e.items()))
            for s2 in succ:
                todo.append((s2, env2))
        return out

    verdicts = {}
    ok = True
    for fa in (False, True):
        for xp in (False, True):
            r = reachable_under({"failed": fa, "xpassed": xp})
            err_r, ok_r = last_err[0] in r, last_ok[0] in r
            verdicts["failed>0=%s,xpassed>0=%s" % (fa, xp)] = "Err" if err_r and not ok_r else \
                "Ok" if ok_r and not err_r else "both" if err_r else "neither"
            want = "Err" if (fa or xp) else "Ok"
            ok = ok and verdicts["failed>0=%s,xpassed>0=%s" % (fa, xp)] == want
    rep.oblige("EXIT", "Err-iff-failed-or-xpassed", ok, sample={"rule": "EXIT", "final_return_per_case": verdicts})
    if not ok:
        rep.add(Finding("EXIT", "EXIT|run_tests|status",
                        "the final Ok(SUCCESS)/Err(FAILURE) returns are not decided exactly by `failed > 0 || "
                        "xpassed > 0`: %s" % verdicts, file=f.file, line=last_err[1], fn=f.path))


def filt(F, rep, f):
    clos = [g for p, g in F.fns.items() if p.startswith(f.path + "::{closure")]
    target = None
    for g in clos:
        calls = [callee_generic(t) or "" for _, t in g.calls()]
        if any(c.endswith("str::<impl str>::contains") or c.endswith("::contains") for c in calls) and \
                any("TestMarker" in (t["f"].get("self", "") + t["f"].get("inst", "")) for _, t in g.calls()):
            target = g
    if not rep.anchor("FILTER", "filter closure of run_tests (-k / --slow)", target):
        return
    rep.functions.add(target.path)
    n = 0
    import itertools
    results = {}
    for perm in ((0, 1), (1, 0)):
        table = {}
        try:
            for has_k, name_matches, include_slow, is_slow in itertools.product((False, True), repeat=4):
                def hook(name, gen, args, t, ev, nm=name_matches, sl=is_slow):
                    if "str" in gen and gen.endswith("::contains"):
                        return boolean(nm)
                    if gen.endswith("::contains"):
                        return boolean(sl)
                    return None
                ups = [None, None]
                ups[perm[0]] = ("ref", {0: (opt_some(("str", "k")) if has_k else opt_none())}, {"l": 0, "p": []})
                ups[perm[1]] = ("ref", {0: boolean(include_slow)}, {"l": 0, "p": []})
                envv = ("closure", tuple(ups))
                ev = UpvarEvaluator(F, call_hook=hook)
                res = ev.run(target, [("ref", {0: envv}, {"l": 0, "p": []}), UNKNOWN])
                table[(has_k, name_matches, include_slow, is_slow)] = res
        except OutOfFragment as e:
            results[perm] = e
            continue
        results[perm] = table
    good = None
    for perm, table in results.items():
        if isinstance(table, dict) and all(v[0] == "bool" for v in table.values()):
            good = table
            if all(v[1] == ((not k[0] or k[1]) and (k[2] or not k[3])) for k, v in table.items()):
                break
    if good is None:
        rep.oblige("FILTER", "table", False)
        rep.add(Finding("FILTER", "FILTER|run_tests|rule-out-of-fragment",
                        "cannot tabulate the test filter closure: %s; failing closed"
                        % "; ".join(str(v) for v in results.values() if not isinstance(v, dict)),
                        file=target.file, line=target.line, fn=target.path))
        return
    for k, v in sorted(good.items()):
        want = (not k[0] or k[1]) and (k[2] or not k[3])
        ok = v[1] == want
        inst = "k=%s,match=%s,slow_ok=%s,is_slow=%s" % k
        rep.oblige("FILTER", inst, ok, sample={"rule": "FILTER", "case": inst, "selected": v[1], "documented": want})
        if not ok:
            rep.add(Finding("FILTER", "FILTER|run_tests|%s" % inst,
                            "the test filter selects=%s for (%s); documented: %s" % (v[1], inst, want),
                            file=target.file, line=target.line, fn=target.path))
    rep.exhaustive_tables.append({"table": "test filter predicate", "cells": len(good)})


class UpvarEvaluator(Evaluator):
    def project(self, env, v, e):
        if e[0] == "up":
            if v[0] == "closure" and e[1] < len(v[1]):
                return v[1][e[1]]
            return UNKNOWN
        return super().project(env, v, e)


def status(F, rep):
    f = F.one_fn("test_runner::run_single_test")
    if not rep.anchor("STATUS", "cli::test_runner::run_single_test", f):
        return
    rep.functions.add(f.path)
    passed = [(bi, s.get("ln")) for bi, b in enumerate(f.blocks) for s in b["st"]
              if s["s"] == "assign" and s["rv"]["r"] == "agg" and s["rv"].get("adt") == TR and
              s["rv"]["variant"] == "Passed"]
    succ = [(bi, t) for bi, t in f.calls() if (callee_name(t) or "").endswith("ExitStatus::success")]
    if not rep.anchor("STATUS", "TestResult::Passed construction", passed) or \
            not rep.anchor("STATUS", "status.success() call", succ):
        return
    from c09 import bool_edges
    dom = set()
    for bi, t in succ:
        if not t["d"]["p"]:
            for (a, b) in bool_edges(f, t["d"]["l"], True):
                dom |= blocks_dominated_by_edge(f, a, b)
    for (bi, ln) in passed:
        ok = bi in dom
        rep.oblige("STATUS", "Passed@line%s" % ln, ok, sample={"rule": "STATUS", "line": ln,
                                                               "dominated_by_status_success": ok})
        if not ok:
            rep.add(Finding("STATUS", "STATUS|run_single_test|Passed",
                            "TestResult::Passed is built on a path not dominated by `output.status.success()`",
                            file=f.file, line=ln, fn=f.path))
    # HARNESSFRESH: the harness that is run was generated from THIS test's source in THIS invocation: the cargo
    # invocation is dominated by the success edges of code generation and project generation
    cargo = [bi for bi, t in f.calls() if (callee_name(t) or "").endswith("process::Command::new")]
    gen_closure = F.closure([p for p in F.fns if p.endswith("IrCodegen::<'a>::try_generate")])
    pg_closure = F.closure([p for p in F.fns if p.endswith("ProjectGenerator::generate")])
    dom_all = f.dominators()
    for what, clo in (("code generation (IrCodegen::try_generate)", gen_closure),
                      ("project generation (ProjectGenerator::generate)", pg_closure)):
        # the calls that actually perform the step: their closure reaches the step's core function
        core = [p for p in F.fns if p.endswith("IrEmitter::<'a>::emit_program") or p.endswith("::emit_program")] \
            if what.startswith("code") else [p for p in F.fns if p.endswith("ProjectGenerator::generate_cargo_toml")]
        callers = [bi for bi, t in f.calls() if callee_name(t) in F.fns and
                   any(c in F.closure([callee_name(t)]) for c in core)]
        ok = bool(cargo) and bool(callers) and all(any(c in dom_all.get(cb, set()) for c in callers) for cb in cargo)
        # ... and by its SUCCESS edge: the step must be able to fail visibly (a Result whose Ok edge leads to cargo);
        # an infallible variant that folds errors into its output (`// Generation error: ..`) would let a test whose
        # file does not even compile run zero tests and be reported as passed
        if ok:
            from engines import variant_edges, SUCCESS_VARIANTS
            from panicinv import dominated
            ok_edges = []
            for c in callers:
                t = f.term(c)
                if not t["d"]["p"] and "Result<" in f.local_ty(t["d"]["l"]):
                    ok_edges += variant_edges(f, t["d"]["l"], SUCCESS_VARIANTS)
            ok = bool(ok_edges) and all(dominated(f, cb, ok_edges) for cb in cargo)
        rep.oblige("STATUS", "fresh:" + what.split(" ")[0], ok,
                   sample={"rule": "STATUS", "cargo_invocation_dominated_by": what, "holds": ok})
        if not ok:
            rep.add(Finding("STATUS", "STATUS|run_single_test|stale-harness|%s" % what.split(" ")[0],
                            "the cargo invocation in run_single_test is not dominated by %s: a previously generated "
                            "harness (possibly for another file's test of the same name) can be run and its verdict "
                            "reported for this test" % what, file=f.file, line=f.line, fn=f.path))
    # the harness is run with `cargo test`
    from engines import all_string_constants
    strs = [v for _, v in all_string_constants(f)]
    ok = "cargo" in strs and "test" in strs
    rep.oblige("STATUS", "runs-cargo-test", ok, sample={"rule": "STATUS", "command_words": [s for s in strs if
                                                                                          len(s) < 12][:8]})
    if not ok:
        rep.add(Finding("STATUS", "STATUS|run_single_test|cargo-test",
                        "run_single_test no longer invokes `cargo test` on the generated harness", file=f.file,
                        line=f.line, fn=f.path))


# parameter of run_tests -> field of `Command::Test` that carries it (one line per flag)
FLAG_WIRING = {
    "verbose": "verbose",               # -v
    "stop_on_fail": "stop_on_fail",     # -x / --exitfirst: what STOP examines
    "include_slow": "slow",             # --slow: what SKIP examines
    "fail_on_empty": "fail_on_empty",   # --fail-on-empty: what EXIT examines
}


def flagwiring(F, rep):
    """FLAGWIRING - the flags the runner's rules reason about (`stop_on_fail`, `include_slow`, `fail_on_empty`,
    `verbose`) are the command line's: at the call of run_tests each of these parameters receives the field of
    `Command::Test` that the option parser fills for it. Four booleans in a row type-check in any order."""
    from engines import trace_local_source
    f = F.one_fn("cli::execute")
    g = F.one_fn("test_runner::run_tests")
    if not rep.anchor("FLAGWIRING", "cli::execute", f) or not rep.anchor("FLAGWIRING", "run_tests", g):
        return
    calls = [(bi, t) for bi, t in f.calls() if (callee_name(t) or "").endswith("test_runner::run_tests")]
    if not rep.anchor("FLAGWIRING", "call of run_tests in execute", calls):
        return
    rep.functions.add(f.path)
    params = [g.name_of(i) for i in range(1, g.argc + 1)]
    n = 0
    for bi, t in calls:
        for i, o in enumerate(t["args"]):
            if i >= len(params) or params[i] not in FLAG_WIRING:
                continue
            n += 1
            pl = op_place(o)
            src = trace_local_source(f, pl["l"]) if pl is not None else None
            got = None
            if src and src[0] == "place":
                flds = [e[3] for e in src[1]["p"] if e[0] == "f" and e[1].endswith("cli::Command")]
                got = flds[-1] if flds else None
            want = FLAG_WIRING[params[i]]
            ok = got == want
            rep.oblige("FLAGWIRING", "run_tests:%s" % params[i], ok,
                       sample={"rule": "FLAGWIRING", "parameter": params[i], "receives": got, "expected": want})
            if not ok:
                rep.add(Finding("FLAGWIRING", "FLAGWIRING|run_tests|%s" % params[i],
                                "run_tests' parameter `%s` receives the command-line field `%s` instead of `%s`: the "
                                "option the user passed controls a different behaviour of the runner"
                                % (params[i], got, want), file=f.file, line=t.get("ln"), fn=f.path))
    rep.floor("FLAGWIRING", "flag parameters of run_tests wired in execute", n, 4)
