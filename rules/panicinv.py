"""PANIC — inventory of panic sites with guard discharge (used by C11)."""
from engines import (blocks_dominated_by_edge, callee_generic, callee_name, derived_locals, discr_switches, op_place,
                     place_fields, trace_local_source, variant_edges, SUCCESS_VARIANTS)

TRACING = ("tracing", "$crate::event", "$crate::span", "$crate::valueset", "$crate::callsite",
           "$crate::level_enabled", "instrument")


def fn_short(p):
    parts = p.split("::")
    out = []
    for x in reversed(parts):
        out.append(x)
        if not x.startswith("{"):
            break
    return "::".join(reversed(out))


def is_tracing(exp):
    return any(any(x.startswith(t) or t in x for t in TRACING) for x in exp)


def sites_of(F, f):
    """-> list of dict(block, kind, detail, ln, term)"""
    out = []
    for bi, b in enumerate(f.blocks):
        if b.get("cleanup"):
            continue
        t = b["term"]
        exp = t.get("exp") or []
        if any(x.startswith("debug_assert") for x in exp) or is_tracing(exp):
            continue
        if t["t"] == "assert":
            if t["msg"].startswith("overflow") and "Div" not in t["msg"] and "Rem" not in t["msg"]:
                continue
            out.append({"block": bi, "kind": "assert:" + t["msg"], "ln": t.get("ln"), "term": t})
        elif t["t"] == "call":
            g = callee_generic(t) or ""
            n = callee_name(t) or ""
            last = g.split("::")[-1]
            selfty = t["f"].get("self", "")
            if last in ("unwrap", "expect", "unwrap_err", "expect_err") and ("option::Option" in g or
                                                                               "result::Result" in g):
                out.append({"block": bi, "kind": "%s::%s" % ("Option" if "Option" in g else "Result", last),
                            "ln": t.get("ln"), "term": t})
            elif n.startswith("core::panicking") or n.startswith("std::rt::begin_panic") or \
                    n.startswith("core::option::expect_failed") or n.startswith("core::result::unwrap_failed"):
                k = "panic!"
                for m in ("unreachable", "todo", "unimplemented", "assert", "assert_eq", "assert_ne"):
                    if m in exp:
                        k = m + "!"
                out.append({"block": bi, "kind": k, "ln": t.get("ln"), "term": t})
            elif g.endswith("Index::index") or g.endswith("IndexMut::index_mut"):
                base = selfty.split("<")[0].split("::")[-1]
                ga = " ".join(t["f"].get("ga", [])[1:])
                rng = "[range]" if "Range" in ga else ""
                if base in ("HashMap", "BTreeMap"):
                    out.append({"block": bi, "kind": "index:%s[key]" % base, "ln": t.get("ln"), "term": t})
                else:
                    out.append({"block": bi, "kind": "index:%s%s" % (base, rng), "ln": t.get("ln"), "term": t})
            elif last in ("borrow", "borrow_mut") and "RefCell" in g:
                out.append({"block": bi, "kind": "RefCell::" + last, "ln": t.get("ln"), "term": t})
            elif last in ("remove", "insert", "swap_remove", "split_off", "drain", "split_at", "split_at_mut",
                          "replace_range", "swap", "copy_from_slice", "chunks", "windows", "step_by",
                          "repeat") and (selfty.startswith("alloc::vec::Vec<") or selfty.startswith("alloc::string::String")
                                         or selfty.startswith("[") or selfty == "str" or selfty.startswith("&[")
                                         or selfty.startswith("&str")):
                if last in ("insert",) and not selfty.startswith("alloc::vec::Vec<") and \
                        not selfty.startswith("alloc::string::String"):
                    continue
                out.append({"block": bi, "kind": "%s::%s" % (selfty.split("<")[0].split("::")[-1], last),
                            "ln": t.get("ln"), "term": t})
    return out


# ---------------------------------------------------------------------------------------------------------------
# guard recognition
# ---------------------------------------------------------------------------------------------------------------
def len_locals(f):
    """local -> root local of the container whose len() it holds."""
    out = {}
    for bi, t in f.calls():
        g = callee_generic(t) or ""
        if g.split("::")[-1] == "len" and not t["d"]["p"] and t["args"]:
            a = op_place(t["args"][0])
            if a is not None:
                out[t["d"]["l"]] = root_of(f, a)
    # copies
    changed = True
    while changed:
        changed = False
        for b in f.blocks:
            for s in b["st"]:
                if s["s"] == "assign" and not s["d"]["p"] and s["d"]["l"] not in out and s["rv"]["r"] in ("use", "cast"):
                    p = op_place(s["rv"]["o"])
                    if p is not None and not p["p"] and p["l"] in out:
                        out[s["d"]["l"]] = out[p["l"]]
                        changed = True
    return out


def root_of(f, pl, depth=8):
    """Canonical description of the container a place denotes: (root local, field path)."""
    cur = pl
    path = []
    for _ in range(depth):
        flds = tuple(e[3] for e in cur["p"] if e[0] == "f")
        path = list(flds) + path
        d = f.single_def(cur["l"])
        if d is None or d[2] not in ("assign", "call"):
            break
        if d[2] == "call":
            g = callee_generic(d[3]) or ""
            if g.split("::")[-1] in ("deref", "deref_mut", "as_slice", "as_ref", "borrow", "as_mut_slice", "as_str"):
                a = op_place(d[3]["args"][0]) if d[3]["args"] else None
                if a is None:
                    break
                cur = a
                continue
            break
        rv = d[3]
        if rv["r"] in ("use", "cast"):
            p = op_place(rv["o"])
            if p is None:
                break
            cur = p
        elif rv["r"] in ("ref", "cfd", "rawptr"):
            cur = rv["p"]
        else:
            break
    return (cur["l"], tuple(path))


def const_int(o):
    if o is not None and "c" in o:
        c = o["c"].split("_")[0]
        if c.lstrip("-").isdigit():
            return int(c)
    return None


def index_operand(f, site):
    """(container root, index operand) for an index site."""
    t = site["term"]
    if t["t"] == "call":
        base = op_place(t["args"][0]) if t["args"] else None
        idx = t["args"][1] if len(t["args"]) > 1 else None
        return (root_of(f, base) if base else None), idx
    # Assert(bounds): operands recorded by the driver
    idx = t.get("index")
    base = None
    lp = op_place(t["len"]) if t.get("len") else None
    if lp is not None:
        d = f.single_def(lp["l"])
        if d and d[2] == "assign":
            rv = d[3]
            b2 = None
            if rv["r"] == "un":
                b2 = op_place(rv["o"])
            elif "p" in rv and isinstance(rv["p"], dict):
                b2 = rv["p"]
            if b2 is not None:
                base = root_of(f, b2)
    return base, idx


def edges_where(f, pred):
    """Edges (a, b) out of boolean switches for which pred(defining rvalue / call, polarity) holds."""
    out = []
    for bi, b in enumerate(f.blocks):
        t = b["term"]
        if t["t"] != "switch" or t["ty"] != "bool":
            continue
        p = op_place(t["on"])
        if p is None or p["p"]:
            continue
        # resolve through copies and `!`
        cur = p["l"]
        neg = False
        rv = None
        call = None
        for _ in range(6):
            d = f.single_def(cur)
            if d is None:
                break
            if d[2] == "call":
                call = d[3]
                break
            r = d[3]
            if r["r"] in ("use",):
                q = op_place(r["o"])
                if q is None or q["p"]:
                    break
                cur = q["l"]
            elif r["r"] == "un" and r["op"] == "Not":
                q = op_place(r["o"])
                if q is None or q["p"]:
                    break
                cur = q["l"]
                neg = not neg
            else:
                rv = r
                break
        false_t = [tg for v, tg in t["targets"] if v == "0"]
        true_t = t["otherwise"]
        for polarity, tgts in ((True, [true_t]), (False, false_t)):
            eff = polarity != neg
            if pred(rv, call, eff):
                out.extend((bi, x) for x in tgts)
    return out


def dominated(f, block, edges):
    """True when every path from the entry to `block` crosses one of `edges` (one edge dominating, or several
    jointly, e.g. the copies of a match guard that an or-pattern produces)."""
    edges = list(edges)
    for (a, b) in edges:
        if block in blocks_dominated_by_edge(f, a, b):
            return True
    if len(edges) < 2:
        return False
    cut = set(edges)
    succ = f.succs()
    seen, todo = set(), [0]
    while todo:
        x = todo.pop()
        if x in seen:
            continue
        seen.add(x)
        if x == block:
            return False
        for y in succ[x]:
            if (x, y) not in cut:
                todo.append(y)
    return True


def discharge_index(F, f, site):
    """-> reason string if the index site is guarded by a recognised idiom, else None."""
    base, idx = index_operand(f, site)
    if idx is None:
        return None
    k = const_int(idx)
    if k is None:
        ip0 = op_place(idx)
        if ip0 is not None and not ip0["p"]:
            d0 = f.single_def(ip0["l"])
            if d0 and d0[2] == "assign" and d0[3]["r"] == "use":
                k = const_int(d0[3]["o"])
    lens = len_locals(f)
    blk = site["block"]

    def len_of_base(o):
        p = op_place(o)
        return p is not None and not p["p"] and p["l"] in lens and (base is None or lens[p["l"]] == base)

    if k is not None:
        # constant index: needs len > k
        def pred(rv, call, pol):
            if rv is not None and rv["r"] == "bin":
                a, b, op = rv["a"], rv["b"], rv["op"]
                n = const_int(b)
                if len_of_base(a) and n is not None:
                    if op == "Eq" and pol and n > k:
                        return True
                    if op == "Ge" and pol and n > k:
                        return True
                    if op == "Gt" and pol and n >= k:
                        return True
                    if op == "Ne" and pol and n == 0 and k == 0:
                        return True
                    if op == "Lt" and not pol and n > k:
                        return True
                    if op == "Le" and not pol and n >= k:
                        return True
                    if op == "Eq" and not pol and n == 0 and k == 0:
                        return True
                    if op == "Ne" and not pol and n > k:
                        return True
                n = const_int(a)
                if len_of_base(b) and n is not None:
                    if op == "Lt" and pol and n >= k:
                        return True
                    if op == "Le" and pol and n > k:
                        return True
            if call is not None and k == 0:
                g = (callee_generic(call) or "").split("::")[-1]
                if g == "is_empty" and not pol:
                    a = op_place(call["args"][0]) if call["args"] else None
                    if a is not None and (base is None or root_of(f, a) == base):
                        return True
            return False
        if dominated(f, blk, edges_where(f, pred)):
            return "constant index %d under a length test on the same container" % k
        # `match v.len() { 2 => .., 3 => .. }`
        for bi, b in enumerate(f.blocks):
            t = b["term"]
            if t["t"] == "switch" and t["ty"] == "usize":
                if len_of_base(t["on"]):
                    for v, tg in t["targets"]:
                        if int(v) > k and blk in blocks_dominated_by_edge(f, bi, tg):
                            return "constant index %d in the arm `len() == %s` of a match on the length" % (k, v)
        # `match v.as_slice() { [a, b] => ..}` / slice patterns produce their own len checks (ConstantIndex), not here
        return None
    ip = op_place(idx)
    if ip is None:
        return None
    iroot = ip["l"]
    ilocs = set()
    for origin in backwards_copies(f, iroot):
        ilocs |= derived_locals(f, origin) | {origin}

    # explicit bound test  i < len(base)
    def pred2(rv, call, pol):
        if rv is not None and rv["r"] == "bin":
            a, b, op = rv["a"], rv["b"], rv["op"]
            pa, pb = op_place(a), op_place(b)
            if pa is not None and pa["l"] in ilocs and len_of_base(b):
                return (op == "Lt" and pol) or (op == "Ge" and not pol)
            if pb is not None and pb["l"] in ilocs and len_of_base(a):
                return (op == "Gt" and pol) or (op == "Le" and not pol)
        return False
    if dominated(f, blk, edges_where(f, pred2)):
        return "index tested against len() of the same container"
    # loop variable of `for i in 0..len(base)` / `enumerate()`
    src = trace_local_source(f, iroot)
    if src and src[0] == "place":
        pl = src[1]
        # payload of Some(..) from Range::next
        d = f.single_def(pl["l"])
        if d and d[2] == "call" and (callee_generic(d[3]) or "").endswith("Iterator::next") and \
                "Range<usize>" in d[3]["f"].get("self", ""):
            return "loop variable of a usize range (bounded by the range end)"
    return None


def backwards_copies(f, local):
    out = {local}
    cur = local
    for _ in range(8):
        d = f.single_def(cur)
        if d is None or d[2] != "assign" or d[3]["r"] not in ("use", "cast"):
            break
        p = op_place(d[3]["o"])
        if p is None or p["p"]:
            break
        cur = p["l"]
        out.add(cur)
    return out


def discharge_unwrap(F, f, site):
    t = site["term"]
    a = op_place(t["args"][0]) if t["args"] else None
    if a is None:
        return None
    root = a["l"]
    srcs = backwards_copies(f, root)
    # dominated by is_some()/is_ok() true edge on the same value, or inside the Some/Ok arm of a match on it

    def pred(rv, call, pol):
        if call is not None:
            g = (callee_generic(call) or "").split("::")[-1]
            x = op_place(call["args"][0]) if call["args"] else None
            if x is not None:
                xr = trace_local_source(f, x["l"])
                same = (x["l"] in srcs) or (xr is not None and xr[0] == "place" and xr[1]["l"] in srcs)
                if same and ((g in ("is_some", "is_ok") and pol) or (g in ("is_none", "is_err") and not pol)):
                    return True
        return False
    if dominated(f, site["block"], edges_where(f, pred)):
        return "dominated by is_some()/is_ok() on the same value"
    for r in srcs:
        edges = variant_edges(f, r, SUCCESS_VARIANTS)
        if dominated(f, site["block"], edges):
            return "inside the Some/Ok arm of a match on the same value"
    return None
