"""Fact store: loads the JSONL written by tools/factdrv and offers CFG / call-graph / field-use services.

Everything here is a *query over the compiler-resolved program* (rustc's mir_built, resolved callees, typed
field projections). Nothing reads source text.
"""
import glob
import json
import os
import re
from collections import defaultdict, deque

WORKSPACE_CRATES = ("incan", "incan_core", "incan_syntax", "incan_stdlib", "incan_derive", "incan_lsp",
                    "generate_lang_reference")


class Fn:
    __slots__ = ("path", "dk", "file", "line", "end", "vis", "coroutine", "argc", "locals", "dbg", "blocks",
                 "crate", "_succ", "_pred", "_dom", "_defs", "names")

    def __init__(self, r, crate):
        self.path = r["path"]
        self.dk = r["dk"]
        self.file = r["file"]
        self.line = r["line"]
        self.end = r["end"]
        self.vis = r["vis"]
        self.coroutine = r["coroutine"]
        self.argc = r["argc"]
        self.locals = r["locals"]
        self.dbg = r["dbg"]
        self.blocks = r["blocks"]
        self.crate = crate
        self._succ = None
        self._pred = None
        self._dom = None
        self._defs = None
        self.names = {}
        for name, pl in self.dbg:
            if not pl["p"]:
                self.names.setdefault(pl["l"], name)

    # ---- CFG -----------------------------------------------------------------------------------------------
    def term(self, b):
        return self.blocks[b]["term"]

    def stmts(self, b):
        return self.blocks[b]["st"]

    def succ(self, b, unwind=False):
        """Normal-flow successors (imaginary FalseEdge targets and unwind edges excluded by default)."""
        t = self.blocks[b]["term"]
        k = t["t"]
        out = []
        if k in ("goto", "falseedge", "falseunwind", "drop", "assert"):
            out.append(t["to"])
        elif k == "switch":
            out.extend(bb for _, bb in t["targets"])
            out.append(t["otherwise"])
        elif k == "call":
            if t["to"] is not None:
                out.append(t["to"])
        elif k == "yield":
            out.append(t["to"])
        if unwind and "unwind" in t:
            out.append(t["unwind"])
        # de-dup, keep order
        seen = []
        for x in out:
            if x not in seen:
                seen.append(x)
        return seen

    def succs(self):
        if self._succ is None:
            self._succ = [self.succ(b) for b in range(len(self.blocks))]
        return self._succ

    def preds(self):
        if self._pred is None:
            p = [[] for _ in self.blocks]
            for b, ss in enumerate(self.succs()):
                for s in ss:
                    p[s].append(b)
            self._pred = p
        return self._pred

    def reachable(self, start=0, avoid=()):
        seen = set()
        dq = deque([start])
        avoid = set(avoid)
        while dq:
            b = dq.popleft()
            if b in seen or b in avoid:
                continue
            seen.add(b)
            dq.extend(self.succs()[b])
        return seen

    def dominators(self):
        """dom[b] = set of blocks dominating b (iterative; bodies are small)."""
        if self._dom is not None:
            return self._dom
        n = len(self.blocks)
        reach = self.reachable(0)
        order = [b for b in range(n) if b in reach]
        full = set(order)
        dom = {b: set(full) for b in order}
        dom[0] = {0}
        preds = self.preds()
        changed = True
        while changed:
            changed = False
            for b in order:
                if b == 0:
                    continue
                ps = [p for p in preds[b] if p in reach]
                if not ps:
                    continue
                new = set.intersection(*(dom[p] for p in ps)) | {b}
                if new != dom[b]:
                    dom[b] = new
                    changed = True
        self._dom = dom
        return dom

    def is_unreachable_block(self, b, depth=0):
        """Block leads only to `unreachable` (exhaustive match fallthrough)."""
        t = self.blocks[b]["term"]
        if t["t"] == "unreachable":
            return True
        if t["t"] in ("goto", "falseedge") and depth < 4 and not any(s["s"] == "assign" for s in self.stmts(b)):
            return self.is_unreachable_block(t["to"], depth + 1)
        return False

    # ---- definitions of temporaries ---------------------------------------------------------------------
    def defs(self):
        """local -> list of (block, idx, kind, payload): assignments (whole-local) and call destinations."""
        if self._defs is None:
            d = defaultdict(list)
            for bi, b in enumerate(self.blocks):
                for si, s in enumerate(b["st"]):
                    if s["s"] == "assign" and not s["d"]["p"]:
                        d[s["d"]["l"]].append((bi, si, "assign", s["rv"]))
                t = b["term"]
                if t["t"] == "call" and not t["d"]["p"]:
                    d[t["d"]["l"]].append((bi, -1, "call", t))
            self._defs = d
        return self._defs

    def single_def(self, local):
        ds = self.defs().get(local, [])
        if len(ds) == 1:
            return ds[0]
        return None

    def calls(self):
        for bi, b in enumerate(self.blocks):
            t = b["term"]
            if t["t"] in ("call", "tailcall"):
                yield bi, t

    def local_ty(self, l):
        return self.locals[l]["ty"]

    def name_of(self, l):
        return self.names.get(l, "_%d" % l)


def callee_name(t):
    """Best resolved name of a call terminator's callee."""
    f = t["f"]
    if "indirect" in f:
        return None
    return f.get("res") or f["path"]


def callee_generic(t):
    f = t["f"]
    if "indirect" in f:
        return None
    return f["path"]


def op_place(o):
    if "cp" in o:
        return o["cp"]
    if "mv" in o:
        return o["mv"]
    return None


def op_const(o):
    if "c" in o:
        return o
    return None


def place_fields(pl):
    """All (adt, variant, field) projections in a place."""
    return [(e[1], e[2], e[3]) for e in pl["p"] if e[0] == "f"]


def iter_operands_rv(rv):
    r = rv["r"]
    if r in ("use", "repeat", "cast", "un", "wub"):
        yield rv["o"]
    elif r == "bin":
        yield rv["a"]
        yield rv["b"]
    elif r == "agg":
        for o in rv["ops"]:
            yield o


def iter_read_places(fn):
    """Yield (block, stmt_index_or_-1, place, how) for every place that is *read* in fn.

    Reads: operands (copy/move), borrowed places (ref / rawptr / copy-for-deref), discriminant reads, call
    arguments, switch operands, and the *base path* of a written place (to write `(*a).f.g` one reads a and f is
    traversed, but g itself is only written — g is reported with how='write').
    FakeRead / PlaceMention (pattern-match bookkeeping) are not reads.
    """
    for bi, b in enumerate(fn.blocks):
        for si, s in enumerate(b["st"]):
            if s["s"] == "assign":
                rv = s["rv"]
                for o in iter_operands_rv(rv):
                    p = op_place(o)
                    if p is not None:
                        yield bi, si, p, "use"
                if rv["r"] in ("ref", "rawptr", "cfd"):
                    yield bi, si, rv["p"], "ref_fake" if rv.get("bk") == "fake" else "ref"
                elif rv["r"] == "discr":
                    yield bi, si, rv["p"], "discr"
                if s["d"]["p"]:
                    yield bi, si, s["d"], "write"
        t = b["term"]
        k = t["t"]
        if k in ("call", "tailcall"):
            for o in t["args"]:
                p = op_place(o)
                if p is not None:
                    yield bi, -1, p, "arg"
            if "indirect" in t["f"]:
                p = op_place(t["f"]["indirect"])
                if p is not None:
                    yield bi, -1, p, "use"
            if k == "call" and t["d"]["p"]:
                yield bi, -1, t["d"], "write"
        elif k == "switch":
            p = op_place(t["on"])
            if p is not None:
                yield bi, -1, p, "use"
        elif k == "assert":
            p = op_place(t["cond"])
            if p is not None:
                yield bi, -1, p, "use"
        elif k == "yield":
            p = op_place(t["v"])
            if p is not None:
                yield bi, -1, p, "use"


class Facts:
    def __init__(self, directory):
        self.dir = directory
        self.fns = {}
        self.adts = {}
        self.impls = []
        self.mods = {}
        self.items = {}
        self.kw = []
        self.crates = []
        self.stolen = []
        self.eqops = []
        self.binary_seen = {}
        files = sorted(glob.glob(os.path.join(directory, "*.jsonl")))
        for f in files:
            crate = None
            ctypes = ""
            with open(f) as fh:
                for line in fh:
                    r = json.loads(line)
                    k = r["k"]
                    if k == "crate":
                        crate = r["name"]
                        ctypes = r["types"]
                        self.crates.append(r)
                    elif k == "fn":
                        # proc-macro crate is compiled twice (host/target): keep first; bin `incan` and lib
                        # `incan` share the crate name but not paths.
                        if r["path"] not in self.fns:
                            self.fns[r["path"]] = Fn(r, crate)
                    elif k == "adt":
                        self.adts.setdefault(r["path"], r)
                    elif k == "impl":
                        r["crate"] = crate
                        self.impls.append(r)
                    elif k == "mod":
                        r["crate"] = crate
                        self.mods.setdefault(r["path"], r)
                    elif k == "item":
                        r["crate"] = crate
                        self.items.setdefault(r["path"], r)
                    elif k == "kw":
                        if not self.kw:
                            self.kw = r["list"]
                    elif k == "stolen":
                        self.stolen.append(r["path"])
                    elif k == "eqop_scan":
                        self.binary_seen[crate] = max(self.binary_seen.get(crate, 0), r["binary"])
                    elif k == "eqop":
                        r["crate"] = crate
                        self.eqops.append(r)
        self._cg = None
        self._rcg = None

    # ---- lookups ------------------------------------------------------------------------------------------
    def fn(self, path):
        return self.fns.get(path)

    def find_fns(self, suffix=None, regex=None):
        out = []
        for p, f in self.fns.items():
            if suffix is not None and (p == suffix or p.endswith("::" + suffix)):
                out.append(f)
            elif regex is not None and re.search(regex, p):
                out.append(f)
        return out

    def one_fn(self, suffix):
        """Exactly one function with this path suffix, or None."""
        fs = [f for f in self.find_fns(suffix=suffix) if "{closure" not in f.path[len(f.path) - 12:]]
        fs = [f for f in fs if not f.path.endswith("}")]
        if len(fs) == 1:
            return fs[0]
        return None

    def closures_of(self, path):
        pre = path + "::{"
        return [f for p, f in self.fns.items() if p.startswith(pre)]

    # ---- call graph -----------------------------------------------------------------------------------------
    def callgraph(self):
        if self._cg is not None:
            return self._cg
        cg = defaultdict(set)
        for p, f in self.fns.items():
            for bi, b in enumerate(f.blocks):
                t = b["term"]
                if t["t"] in ("call", "tailcall"):
                    n = callee_name(t)
                    if n:
                        cg[p].add(n)
                        g = callee_generic(t)
                        if g and g != n:
                            # unresolved trait call keeps the trait method as a node too
                            cg[p].add(g)
                    for o in t["args"]:
                        if "fn" in o:
                            cg[p].add(o["fn"])
                for s in b["st"]:
                    if s["s"] == "assign":
                        rv = s["rv"]
                        for o in iter_operands_rv(rv):
                            if "fn" in o:
                                cg[p].add(o["fn"])
                        if rv["r"] == "agg" and rv.get("ak") in ("closure", "coroutine", "coroutine_closure"):
                            cg[p].add(rv["def"])
        # nested bodies (closures, coroutine bodies, nested consts) belong to their parent
        for p in self.fns:
            i = p.rfind("::{")
            if i > 0:
                parent = p[:i]
                if parent in self.fns:
                    cg[parent].add(p)
        self._cg = cg
        return cg

    def closure(self, entries, stop=(), pred=None):
        """Functions (with bodies in the workspace) reachable from `entries` over the resolved call graph."""
        cg = self.callgraph()
        seen = set()
        dq = deque(entries)
        stop = set(stop)
        while dq:
            p = dq.popleft()
            if p in seen or p in stop:
                continue
            if p not in self.fns:
                continue
            if pred is not None and not pred(p):
                continue
            seen.add(p)
            dq.extend(cg.get(p, ()))
        return seen

    def callers(self):
        if self._rcg is None:
            r = defaultdict(set)
            for p, cs in self.callgraph().items():
                for c in cs:
                    r[c].add(p)
            self._rcg = r
        return self._rcg

    # ---- field use ------------------------------------------------------------------------------------------
    def field_reads(self, fnpaths, include_write=False):
        """(adt, variant, field) -> list of (fnpath, line) read sites within the given functions."""
        out = defaultdict(list)
        for p in fnpaths:
            f = self.fns[p]
            for bi, si, pl, how in iter_read_places(f):
                fl = place_fields(pl)
                if not fl:
                    continue
                ln = (f.stmts(bi)[si] if si >= 0 else f.term(bi)).get("ln", f.line)
                if how == "write" and not include_write:
                    fl = fl[:-1]  # the last projection is the written field itself
                if how == "ref_fake":
                    continue
                for key in fl:
                    out[key].append((p, ln))
        return out

    def adt_fields(self, adt_path):
        a = self.adts[adt_path]
        out = []
        for v in a["variants"]:
            for f in v["fields"]:
                out.append((adt_path, v["name"], f["name"], f))
        return out


def load_cached(directory):
    """Facts with a pickle cache keyed on the directory's STAMP nonce."""
    import pickle
    stamp = os.path.join(directory, "STAMP")
    nonce = None
    if os.path.exists(stamp):
        try:
            nonce = json.load(open(stamp)).get("nonce")
        except Exception:
            nonce = None
    pk = os.path.join(directory, "facts.pickle")
    if nonce and os.path.exists(pk):
        try:
            with open(pk, "rb") as fh:
                n2, obj = pickle.load(fh)
            if n2 == nonce:
                return obj
        except Exception:
            pass
    obj = Facts(directory)
    if nonce:
        try:
            tmp = pk + ".tmp%d" % os.getpid()
            with open(tmp, "wb") as fh:
                pickle.dump((nonce, obj), fh, protocol=pickle.HIGHEST_PROTOCOL)
            os.replace(tmp, pk)
        except Exception:
            pass
    return obj
