"""IDXEVAL — relational abstract interpretation of the index / slice normalisation kernels.

Values are linear forms over a few symbolic inputs of a kernel (the index or slice start `idx`, the container length
`len`, the slice end `end`, the slice `step`); the abstract state also carries a convex polyhedron over those inputs
that records every branch decision taken so far. A comparison of two linear forms that is not decided by the
polyhedron SPLITS the state (the polyhedron is refined with the condition and with its negation), so every leaf of the
exploration is a region of the input space on which the kernel's behaviour is one outcome (raise / None / Some(form) /
element accesses at given forms). Leaves are compared with Python's definition of indexing and of `slice.indices`.

Nothing is executed and no concrete value is ever computed: the input space is covered by finitely many polyhedra;
emptiness and bounds are decided by Fourier–Motzkin elimination over the rationals. Operations without a transfer
function yield TOP; a path that branched on TOP is 'imprecise' and is never reported (it is counted in the evidence as
undecided). A violation is reported only together with an integer witness found inside its region.
"""
from fractions import Fraction
from itertools import product

from engines import callee_generic, callee_name, op_place

TOP = ("top",)
HUGE = ("huge",)
UNIT = ("unit",)
VARS = ("idx", "len", "end", "step")
N = len(VARS)
ZERO = (0,) * N


def lin(coeffs, c=0):
    return ("lin", tuple(coeffs), c)


def var(name):
    return lin(tuple(1 if v == name else 0 for v in VARS), 0)


def const(c):
    return lin(ZERO, c)


IDX, LEN, END, STEP = var("idx"), var("len"), var("end"), var("step")


def is_lin(v):
    return isinstance(v, tuple) and len(v) == 3 and v[0] == "lin"


def ladd(x, y):
    return lin(tuple(a + b for a, b in zip(x[1], y[1])), x[2] + y[2])


def lneg(x):
    return lin(tuple(-a for a in x[1]), -x[2])


def lsub(x, y):
    return ladd(x, lneg(y))


def lscale(x, k):
    return lin(tuple(a * k for a in x[1]), x[2] * k)


def is_const(x):
    return is_lin(x) and all(a == 0 for a in x[1])


def fmt(v):
    if not is_lin(v):
        return str(v)
    parts = []
    for co, nm in zip(v[1], VARS):
        if co == 0:
            continue
        parts.append(("- " if co < 0 else "+ ") + ("" if abs(co) == 1 else str(abs(co)) + "*") + nm)
    if v[2] or not parts:
        parts.append(("- " if v[2] < 0 else "+ ") + str(abs(v[2])))
    s = " ".join(parts)
    return s[2:] if s.startswith("+ ") else s


# ----------------------------------------------------------------------------------------------------------------
# polyhedra:  list of (coeffs, c) meaning  coeffs . x + c >= 0 ; decisions by Fourier-Motzkin elimination
def _norm(con):
    co, c = con
    return (tuple(Fraction(a) for a in co), Fraction(c))


def _fm_eliminate(cons, j):
    pos, neg, zero = [], [], []
    for (co, c) in cons:
        (pos if co[j] > 0 else neg if co[j] < 0 else zero).append((co, c))
    out = set(zero)
    for (cp, kp) in pos:
        for (cn, kn) in neg:
            a, b = cp[j], -cn[j]
            co = tuple(b * x + a * y for x, y in zip(cp, cn))
            c = b * kp + a * kn
            # normalise scale to keep the set small
            m = max([abs(x) for x in co] + [abs(c)]) or 1
            out.add((tuple(x / m for x in co), c / m))
    return list(out)


class Poly:
    def __init__(self, cons=()):
        self.cons = [(_norm(c)) for c in cons]
        self._empty = None

    def with_(self, con):
        p = Poly()
        p.cons = self.cons + [_norm(con)]
        return p

    def _project_all(self, cons, extra_dims=0):
        dims = N + extra_dims
        for j in range(N):
            cons = _fm_eliminate(cons, j)
            if len(cons) > 4000:
                return None
        return cons

    def empty(self):
        if self._empty is None:
            cons = self._project_all(list(self.cons))
            self._empty = False if cons is None else any(c < 0 for (co, c) in cons)
        return self._empty

    def bounds(self, f):
        """(min, max) of the linear form over the polyhedron (rational relaxation); None = unbounded."""
        # add t as dimension N:  t - f >= 0  and  f - t >= 0
        cons = [(co + (Fraction(0),), c) for (co, c) in self.cons]
        fco = tuple(Fraction(a) for a in f[1])
        cons.append((tuple(-a for a in fco) + (Fraction(1),), Fraction(-f[2])))
        cons.append((fco + (Fraction(-1),), Fraction(f[2])))
        for j in range(N):
            cons = _fm_eliminate(cons, j)
            if len(cons) > 4000:
                return (None, None)
        lo, hi = None, None
        for (co, c) in cons:
            a = co[N]
            if a > 0:        # a t + c >= 0  ->  t >= -c/a
                v = -c / a
                lo = v if lo is None or v > lo else lo
            elif a < 0:      # t <= c/(-a)
                v = c / (-a)
                hi = v if hi is None or v < hi else hi
            elif c < 0:
                return ("empty", "empty")
        return (lo, hi)

    def always_ge0(self, f):
        lo, _ = self.bounds(f)
        return lo == "empty" or (lo is not None and lo > -1)       # integer-valued: > -1 means >= 0

    def always_lt0(self, f):
        _, hi = self.bounds(f)
        return hi == "empty" or (hi is not None and hi < 0)

    def sat(self, point):
        return all(sum(a * x for a, x in zip(co, point)) + c >= 0 for (co, c) in self.cons)

    def witness(self):
        used = [any(co[j] != 0 for (co, c) in self.cons) for j in range(N)]
        ranges = []
        for j, nm in enumerate(VARS):
            if not used[j]:
                ranges.append((0,) if nm != "step" else (1,))
            elif nm == "len":
                ranges.append(tuple(range(0, 7)))
            elif nm == "step":
                ranges.append((1, -1, 2, -2, 3, -3))
            else:
                ranges.append(tuple(sorted(range(-9, 10), key=abs)))
        for pt in product(*ranges):
            if self.sat(pt):
                return dict(zip(VARS, pt))
        return None


def ge0(f):     # f >= 0
    return (f[1], f[2])


def lt0(f):     # f < 0  <=>  -f - 1 >= 0   (integers)
    return (tuple(-a for a in f[1]), -f[2] - 1)


# ----------------------------------------------------------------------------------------------------------------
class State:
    __slots__ = ("env", "poly", "precise", "block", "trace", "visits", "why")

    def __init__(self, env, poly, precise=True, block=0, trace=(), visits=None, why=None):
        self.env, self.poly, self.precise, self.block = env, poly, precise, block
        self.trace = trace
        self.visits = visits or {}
        self.why = why

    def fork(self, poly=None, block=None):
        return State(dict(self.env), poly if poly is not None else self.poly, self.precise,
                     self.block if block is None else block, self.trace, dict(self.visits), self.why)


SELECTIVE_OPS = ("skip", "take", "step_by", "rev", "nth", "skip_while", "take_while", "filter", "filter_map", "zip",
                 "chunks", "windows", "split_at", "drain", "truncate", "get_unchecked", "last", "first", "split_off",
                 "char_indices", "bytes", "get_mut", "swap", "reverse", "retain")
INT_BIN = {"Add", "Sub", "AddWithOverflow", "SubWithOverflow", "AddUnchecked", "SubUnchecked"}
CMP = {"Lt": lambda a, b: (lsub(a, b), True), "Ge": lambda a, b: (lsub(a, b), False),
       "Gt": lambda a, b: (lsub(b, a), True), "Le": lambda a, b: (lsub(b, a), False)}


class IdxEvaluator:
    """evaluate(f, args, poly) -> list of leaves (poly, outcome, precise, trace); outcome in
       ("raise",) ("return", value) ("access", form) ("limit",) ("giveup",)"""

    def __init__(self, F, max_states=6000, loop_limit=3):
        self.F = F
        self.max_states = max_states
        self.loop_limit = loop_limit
        self.steps = 0
        self.reasons = set()

    # -- operands / places --------------------------------------------------------------------------------------
    def place_val(self, st, pl):
        v = st.env.get(pl["l"], TOP)
        for e in pl["p"]:
            if e[0] in ("deref", "dc"):
                continue
            if e[0] == "f" and isinstance(v, tuple) and v and v[0] in ("opt", "res"):
                v = v[2] if len(v) > 2 else TOP
                continue
            if e[0] == "t" and isinstance(v, tuple) and v and v[0] in ("pair", "tuple"):
                try:
                    v = v[1 + int(e[1])]
                except Exception:
                    return TOP
                continue
            if e[0] == "f" and isinstance(v, tuple) and v and v[0] == "struct":
                v = v[1].get(e[3], TOP)
                continue
            if e[0] == "up" and isinstance(v, tuple) and v and v[0] == "closure":
                try:
                    v = v[2][int(e[1])]
                except Exception:
                    return TOP
                continue
            if e[0] == "t" and isinstance(v, tuple) and v and v[0] == "closure":
                try:
                    v = v[2][int(e[1])]
                except Exception:
                    return TOP
                continue
            if e[0] == "f" and isinstance(v, tuple) and v and v[0] == "closure":
                try:
                    v = v[2][int(e[3])]
                except Exception:
                    return TOP
                continue
            if e[0] == "f" and isinstance(v, tuple) and v and v[0] == "tuple":
                try:
                    v = v[1 + int(e[3])]
                except Exception:
                    return TOP
                continue
            if e[0] == "f" and isinstance(v, tuple) and v and v[0] in ("pair", "range"):
                try:
                    v = v[1 + int(e[3])]
                except Exception:
                    if v[0] == "range" and e[3] in ("start", "end"):
                        v = v[1] if e[3] == "start" else v[2]
                    else:
                        return TOP
                continue
            return TOP
        return v

    def operand(self, st, o):
        if "c" in o:
            t = o["c"].split("_")[0]
            if t.lstrip("-").isdigit():
                return const(int(t))
            if o["c"] in ("true", "false"):
                return ("bool", o["c"] == "true")
            if o["c"] == "()":
                return UNIT
            return TOP
        pl = op_place(o)
        return self.place_val(st, pl) if pl is not None else TOP

    # -- splitting ----------------------------------------------------------------------------------------------
    def split_sign(self, st, f):
        """-> [(state, True if f < 0 else False)] refined so that the sign of f is constant."""
        if is_const(f):
            return [(st, f[2] < 0)]
        if st.poly.always_lt0(f):
            return [(st, True)]
        if st.poly.always_ge0(f):
            return [(st, False)]
        out = []
        for con, neg in ((lt0(f), True), (ge0(f), False)):
            p = st.poly.with_(con)
            if not p.empty():
                out.append((st.fork(poly=p), neg))
        return out

    def split_in_range(self, st, f):
        """-> [(state, True if 0 <= f < len)]"""
        out = []
        for s1, neg in self.split_sign(st, f):
            if neg:
                out.append((s1, False))
                continue
            for s2, below in self.split_sign(s1, lsub(f, LEN)):
                out.append((s2, below))
        return out

    # -- rvalues ------------------------------------------------------------------------------------------------
    def assign(self, st, s):
        d = s["d"]
        rv = s["rv"]
        r = rv["r"]

        def put(state, val):
            if not d["p"]:
                state.env[d["l"]] = val
            else:
                base = state.env.get(d["l"])
                flds = [e for e in d["p"] if e[0] != "deref"]
                if isinstance(base, tuple) and base and base[0] == "struct" and len(flds) == 1 and flds[0][0] == "f":
                    nd = dict(base[1])
                    nd[flds[0][3]] = val
                    state.env[d["l"]] = ("struct", nd)
            return state

        if r == "use":
            return [put(st, self.operand(st, rv["o"]))]
        if r in ("ref", "cfd", "rawptr"):
            return [put(st, self.place_val(st, rv["p"]))]
        if r == "cast":
            v = self.operand(st, rv["o"])
            ty = rv.get("ty", "")
            if is_lin(v) and ty.startswith("u"):
                # a negative value wraps to something beyond every possible length
                return [put(s2, HUGE if neg else v) for s2, neg in self.split_sign(st, v)]
            return [put(st, v if is_lin(v) else TOP)]
        if r == "un":
            v = self.operand(st, rv["o"])
            if rv["op"] == "Neg" and is_lin(v):
                return [put(st, lneg(v))]
            if rv["op"] == "Not" and isinstance(v, tuple) and v[0] == "bool":
                return [put(st, ("bool", not v[1]))]
            if rv["op"] == "PtrMetadata":
                return [put(st, LEN)]
            return [put(st, TOP)]
        if r == "len":
            return [put(st, LEN)]
        if r == "bin":
            a, b = self.operand(st, rv["a"]), self.operand(st, rv["b"])
            op = rv["op"]
            if op in INT_BIN and is_lin(a) and is_lin(b):
                v = ladd(a, b) if op.startswith("Add") else lsub(a, b)
                if "WithOverflow" in op:
                    return [put(st, ("pair", v, ("bool", False)))]
                return [put(st, v)]
            if op in ("Mul", "MulWithOverflow") and is_lin(a) and is_lin(b):
                k, x = (a, b) if is_const(a) else (b, a)
                if is_const(k):
                    return [put(st, lscale(x, k[2]))]
                return [put(st, TOP)]
            if op in CMP and is_lin(a) and is_lin(b):
                f, when_neg = CMP[op](a, b)
                return [put(s2, ("bool", neg == when_neg)) for s2, neg in self.split_sign(st, f)]
            if op in ("Eq", "Ne") and is_lin(a) and is_lin(b):
                f = lsub(a, b)
                out = []
                for s2, neg in self.split_sign(st, f):
                    if neg:
                        out.append(put(s2, ("bool", op == "Ne")))
                    else:
                        for s3, neg2 in self.split_sign(s2, lneg(f)):
                            out.append(put(s3, ("bool", (op == "Ne") if neg2 else (op == "Eq"))))
                return out
            if op in ("Eq", "Ne") and a[0] == "bool" and b[0] == "bool":
                return [put(st, ("bool", (a[1] == b[1]) == (op == "Eq")))]
            if op in ("BitAnd", "BitOr", "BitXor") and a[0] == "bool" and b[0] == "bool":
                val = (a[1] and b[1]) if op == "BitAnd" else (a[1] or b[1]) if op == "BitOr" else (a[1] != b[1])
                return [put(st, ("bool", val))]
            return [put(st, TOP)]
        if r == "agg":
            if rv.get("ak") == "adt" and rv.get("adt", "").endswith("option::Option"):
                pay = self.operand(st, rv["ops"][0]) if rv["ops"] else None
                return [put(st, ("opt", rv["variant"]) + ((pay,) if pay is not None else ()))]
            if rv.get("ak") == "adt" and rv.get("adt", "").endswith("result::Result"):
                pay = self.operand(st, rv["ops"][0]) if rv["ops"] else None
                return [put(st, ("res", rv["variant"]) + ((pay,) if pay is not None else ()))]
            if rv.get("ak") == "adt" and rv.get("adt", "").endswith("ops::range::Range") and len(rv["ops"]) == 2:
                return [put(st, ("range", self.operand(st, rv["ops"][0]), self.operand(st, rv["ops"][1])))]
            if rv.get("ak") == "tuple" and len(rv["ops"]) == 2:
                return [put(st, ("pair", self.operand(st, rv["ops"][0]), self.operand(st, rv["ops"][1])))]
            if rv.get("ak") == "tuple":
                return [put(st, ("tuple",) + tuple(self.operand(st, o) for o in rv["ops"]))]
            if rv.get("ak") == "closure":
                return [put(st, ("closure", rv.get("def"), tuple(self.operand(st, o) for o in rv["ops"])))]
            return [put(st, TOP)]
        if r == "discr":
            v = self.place_val(st, rv["p"])
            if isinstance(v, tuple) and v and v[0] in ("opt", "res"):
                return [put(st, ("variant", v[1], dict((n, k) for k, n in rv.get("vars", []))))]
            return [put(st, TOP)]
        return [put(st, TOP)]

    # -- calls --------------------------------------------------------------------------------------------------
    def call(self, st, t, depth):
        g = callee_generic(t) or ""
        n = callee_name(t) or ""
        last = g.split("::")[-1].split("<")[0]
        args = [self.operand(st, o) for o in t["args"]]
        who = (t["f"].get("self") or "") + " " + g + " " + t["f"].get("inst", "")
        if n.endswith("errors::raise") or t.get("to") is None:
            return [(st, ("raise",))]
        if last == "len" and ("slice" in g or "Vec" in g or "str" in g):
            return [(st, LEN)]
        if last == "get" and ("slice" in g or "Vec" in g) and len(args) == 2:
            if not is_lin(args[1]):
                return [(st, TOP)]
            out = []
            for s2, inr in self.split_in_range(st, args[1]):
                s2.trace = s2.trace + (("get", args[1], inr),)
                out.append((s2, ("opt", "Some", TOP) if inr else ("opt", "None")))
            return out
        if last in ("unsigned_abs", "abs") and args and is_lin(args[0]):
            return [(s2, lneg(args[0]) if neg else args[0]) for s2, neg in self.split_sign(st, args[0])]
        if last in ("saturating_sub", "saturating_add", "wrapping_add", "wrapping_sub") and len(args) == 2 and \
                is_lin(args[0]) and is_lin(args[1]):
            v = lsub(args[0], args[1]) if last.endswith("sub") else ladd(args[0], args[1])
            unsigned = "usize" in who or "u64" in who
            if unsigned and last == "saturating_sub":
                return [(s2, const(0) if neg else v) for s2, neg in self.split_sign(st, v)]
            if unsigned and last == "wrapping_sub":
                return [(s2, TOP if neg else v) for s2, neg in self.split_sign(st, v)]
            return [(st, v)]
        if last in ("checked_sub", "checked_add") and len(args) == 2 and is_lin(args[0]) and is_lin(args[1]):
            v = lsub(args[0], args[1]) if last.endswith("sub") else ladd(args[0], args[1])
            if "usize" in who:
                return [(s2, ("opt", "None") if neg else ("opt", "Some", v)) for s2, neg in self.split_sign(st, v)]
            return [(st, ("opt", "Some", v))]
        if last in ("min", "max") and len(args) == 2 and is_lin(args[0]) and is_lin(args[1]):
            f = lsub(args[0], args[1])
            return [(s2, (args[0] if neg else args[1]) if last == "min" else (args[1] if neg else args[0]))
                    for s2, neg in self.split_sign(st, f)]
        if last == "clamp" and len(args) == 3 and all(is_lin(a) for a in args):
            v, lo, hi = args
            out = []
            for s1, below in self.split_sign(st, lsub(v, lo)):
                if below:
                    out.append((s1, lo))
                    continue
                for s2, not_above in self.split_sign(s1, lsub(v, ladd(hi, const(1)))):
                    out.append((s2, v if not_above else hi))
            return out
        if last == "contains" and len(args) == 2 and isinstance(args[0], tuple) and args[0][0] == "range" and \
                is_lin(args[1]) and is_lin(args[0][1]) and is_lin(args[0][2]):
            lo, hi, x = args[0][1], args[0][2], args[1]
            out = []
            for s1, below in self.split_sign(st, lsub(x, lo)):
                if below:
                    out.append((s1, ("bool", False)))
                    continue
                for s2, inside in self.split_sign(s1, lsub(x, hi)):
                    out.append((s2, ("bool", inside)))
            return out
        if last in ("unwrap_or",) and len(args) == 2 and isinstance(args[0], tuple) and args[0][0] == "opt":
            return [(st, (args[0][2] if len(args[0]) > 2 else TOP) if args[0][1] == "Some" else args[1])]
        if last in ("try_from", "try_into") and args and is_lin(args[0]):
            if "usize" in who or "u64" in who:
                return [(s2, ("res", "Err", TOP) if neg else ("res", "Ok", args[0]))
                        for s2, neg in self.split_sign(st, args[0])]
            return [(st, ("res", "Ok", args[0]))]
        if last in ("from", "into", "clone", "deref", "borrow", "as_ref", "as_slice", "as_deref") and len(args) == 1:
            return [(st, args[0])]
        if last == "ok" and args and isinstance(args[0], tuple) and args[0][0] == "res":
            v = args[0]
            return [(st, ("opt", "Some", v[2] if len(v) > 2 else TOP) if v[1] == "Ok" else ("opt", "None"))]
        if last in ("unwrap", "expect") and args and isinstance(args[0], tuple) and args[0][0] in ("opt", "res"):
            v = args[0]
            if v[1] in ("Some", "Ok"):
                return [(st, v[2] if len(v) > 2 else TOP)]
            return [(st, ("raise",))]
        if last in ("is_some", "is_ok", "is_none", "is_err") and args and isinstance(args[0], tuple) and \
                args[0][0] in ("opt", "res"):
            yes = args[0][1] in ("Some", "Ok")
            return [(st, ("bool", yes if last in ("is_some", "is_ok") else not yes))]
        # positions of a container visited in order: ("iter", lo, hi) = lo, lo+1, .., hi-1 (clipped to the container)
        if last in ("iter", "chars", "into_iter") and len(args) == 1 and ("slice" in g or "Vec" in g or "str" in g
                                                                       or "IntoIterator" in g):
            return [(st, ("iter", const(0), LEN))]
        if last in ("cloned", "copied", "by_ref", "peekable", "fuse") and args and isinstance(args[0], tuple) and \
                args[0] and args[0][0] == "iter":
            return [(st, args[0])]
        if last == "skip" and len(args) == 2 and isinstance(args[0], tuple) and args[0][0] == "iter":
            if args[1] == HUGE:
                return [(st, ("iter", args[0][2], args[0][2]))]
            if is_lin(args[1]):
                return [(st, ("iter", ladd(args[0][1], args[1]), args[0][2]))]
        if last == "take" and len(args) == 2 and isinstance(args[0], tuple) and args[0][0] == "iter":
            if args[1] == HUGE:
                return [(st, args[0])]
            if is_lin(args[1]):
                lo, hi = args[0][1], args[0][2]
                cand = ladd(lo, args[1])
                return [(s2, ("iter", lo, cand if shorter else hi))
                        for s2, shorter in self.split_sign(st, lsub(cand, hi))]
        if last == "count" and args and isinstance(args[0], tuple) and args[0] and args[0][0] == "iter":
            return [(st, lsub(args[0][2], args[0][1]))]
        if last == "collect" and args and isinstance(args[0], tuple) and args[0] and args[0][0] == "iter":
            lo, hi = args[0][1], args[0][2]
            out = []
            for s1, beyond in self.split_sign(st, lsub(LEN, hi)):        # hi > len: clip
                h2 = LEN if beyond else hi
                out.append((s1, ("seq", lo, h2)))          # a new container holding positions lo..h2 of the original
            return out
        if last in SELECTIVE_OPS and ("iter" in g.lower() or "slice" in g or "Vec" in g or "str" in g):
            s2 = st.fork()
            if s2.precise:
                s2.why = "elements are selected through `%s`, which this engine does not model" % last
            s2.precise = False
            return [(s2, TOP)]
        # closures: inline with their captured values
        if last in ("call", "call_mut", "call_once") and args and isinstance(args[0], tuple) and args[0] and \
                args[0][0] == "closure" and args[0][1] in self.F.fns and depth < 3:
            h = self.F.fns[args[0][1]]
            spread = []
            if len(args) > 1:
                tv = args[1]
                if isinstance(tv, tuple) and tv and tv[0] == "pair":
                    spread = [tv[1], tv[2]]
                elif isinstance(tv, tuple) and tv and tv[0] == "tuple":
                    spread = list(tv[1:])
                else:
                    spread = [tv]
            out = []
            for (poly, outcome, precise, trace) in self._run(h, [args[0]] + spread, st.poly, depth + 1, st.trace):
                s2 = st.fork(poly=poly)
                s2.precise = st.precise and precise
                s2.trace = trace
                out.append((s2, outcome[1] if outcome[0] == "return" else outcome))
            return out
        # crate-local helper taking symbolic values: inline
        h = self.F.fns.get(n)
        if h is not None and depth < 3 and (
                (len(h.blocks) < 80 and any(is_lin(a) or (isinstance(a, tuple) and a and a[0] in ("opt", "iter", "seq"))
                                            for a in args)) or
                (len(h.blocks) < 25 and h.crate in ("incan_core", "incan_stdlib") and "errors" not in n)):
            out = []
            for (poly, outcome, precise, trace) in self._run(h, args, st.poly, depth + 1, st.trace):
                s2 = st.fork(poly=poly)
                s2.precise = st.precise and precise
                s2.trace = trace
                if outcome[0] == "return":
                    out.append((s2, outcome[1]))
                elif outcome[0] == "access":
                    out.append((s2, ("access-in-callee", outcome[1])))
                else:
                    out.append((s2, outcome))
            return out
        return [(st, TOP)]

    # -- driver -------------------------------------------------------------------------------------------------
    def evaluate(self, f, args, poly=None):
        self.steps = 0
        return self._run(f, args, poly or Poly([ge0(LEN)]), 0, ())

    def evaluate_with_env(self, f, args, poly):
        """like evaluate, but a `return` outcome also carries the final environment (for &mut self kernels)"""
        self.steps = 0
        self.keep_env = True
        try:
            return self._run(f, args, poly, 0, ())
        finally:
            self.keep_env = False

    def _run(self, f, args, poly, depth, trace):
        env = {}
        for i, a in enumerate(args):
            env[i + 1] = a
        leaves = []
        work = [State(env, poly, True, 0, trace)]
        while work:
            st = work.pop()
            self.steps += 1
            if self.steps > self.max_states:
                leaves.append((st.poly, ("giveup",), False, st.trace))
                continue
            st.visits[st.block] = st.visits.get(st.block, 0) + 1
            if st.visits[st.block] > self.loop_limit:
                leaves.append((st.poly, ("limit",), st.precise, st.trace))
                if not st.precise and st.why:
                    self.reasons.add(st.why)
                continue
            b = f.blocks[st.block]
            states = [st]
            for s in b["st"]:
                if s["s"] != "assign":
                    continue
                nxt = []
                for s0 in states:
                    nxt.extend(self.assign(s0, s))
                states = nxt
            t = b["term"]
            k = t["t"]
            for s0 in states:
                if k == "goto":
                    work.append(s0.fork(block=t["to"]))
                elif k in ("drop", "falseedge", "falseunwind"):
                    work.append(s0.fork(block=t.get("to", t.get("real"))))
                elif k == "return":
                    if getattr(self, "keep_env", False) and depth == 0:
                        leaves.append((s0.poly, ("return", s0.env.get(0, TOP), dict(s0.env)), s0.precise, s0.trace))
                    else:
                        leaves.append((s0.poly, ("return", s0.env.get(0, TOP)), s0.precise, s0.trace))
                    if not s0.precise and s0.why:
                        self.reasons.add(s0.why)
                elif k in ("unreachable", "resume"):
                    continue
                elif k == "assert":
                    if t.get("msg") == "bounds":
                        leaves.append((s0.poly, ("access", self.operand(s0, t["index"])), s0.precise, s0.trace))
                    else:
                        work.append(s0.fork(block=t["to"]))
                elif k == "switch":
                    v = self.operand(s0, t["on"])
                    targets = t["targets"]
                    if isinstance(v, tuple) and v[0] == "bool":
                        if v[1]:
                            tg = [x for val, x in targets if val == "1"] or [t["otherwise"]]
                        else:
                            tg = [x for val, x in targets if val == "0"] or [t["otherwise"]]
                        for x in tg:
                            work.append(s0.fork(block=x))
                    elif isinstance(v, tuple) and v[0] == "variant":
                        idx = v[2].get(v[1])
                        tg = [x for val, x in targets if idx is not None and val == str(idx)]
                        for x in (tg or [t["otherwise"]]):
                            work.append(s0.fork(block=x))
                    elif is_lin(v) and is_const(v):
                        tg = [x for val, x in targets if val == str(v[2])]
                        for x in (tg or [t["otherwise"]]):
                            work.append(s0.fork(block=x))
                    else:
                        for x in sorted(set([x for _, x in targets] + [t["otherwise"]])):
                            s1 = s0.fork(block=x)
                            if s1.precise:
                                s1.why = "branch on a value without a linear form at %s:%s" % (
                                    f.path.split("::")[-1], t.get("ln"))
                            s1.precise = False
                            work.append(s1)
                elif k in ("call", "tailcall"):
                    g = callee_generic(t) or ""
                    if g.endswith("Index::index") or g.endswith("IndexMut::index_mut"):
                        ix = self.operand(s0, t["args"][1])
                        if isinstance(ix, tuple) and ix and ix[0] == "range" and is_lin(ix[1]) and is_lin(ix[2]):
                            # container[a..b]: panics unless a <= b <= len, otherwise yields positions a, a+1, .., b-1
                            for s1, rev in self.split_sign(s0, lsub(ix[2], ix[1])):
                                if rev:
                                    leaves.append((s1.poly, ("raise",), s1.precise, s1.trace))
                                    continue
                                for s2, inside in self.split_sign(s1, lsub(ix[2], ladd(LEN, const(1)))):
                                    leaves.append((s2.poly, ("bulk", ix[1], ix[2]) if inside else ("raise",),
                                                   s2.precise, s2.trace))
                            continue
                        leaves.append((s0.poly, ("access", ix), s0.precise, s0.trace))
                        continue
                    for (s1, res) in self.call(s0, t, depth):
                        if isinstance(res, tuple) and res and res[0] in ("raise", "diverge", "giveup", "limit", "bulk"):
                            leaves.append((s1.poly, res, s1.precise, s1.trace))
                        elif isinstance(res, tuple) and res and res[0] == "access-in-callee":
                            leaves.append((s1.poly, ("access", res[1]), s1.precise, s1.trace))
                        elif t.get("to") is None:
                            leaves.append((s1.poly, ("raise",), s1.precise, s1.trace))
                        else:
                            s2 = s1.fork(block=t["to"])
                            if not t["d"]["p"]:
                                s2.env[t["d"]["l"]] = res
                            work.append(s2)
                else:
                    leaves.append((s0.poly, ("giveup",), False, s0.trace))
        return leaves


# ----------------------------------------------------------------------------------------------------------------
# 1. single-element indexing
INDEX_REGIONS = [
    ("idx < -len", [lt0(ladd(IDX, LEN))], ("oob",)),
    ("-len <= idx < 0", [ge0(ladd(IDX, LEN)), lt0(IDX)], ("elem", ladd(IDX, LEN))),
    ("0 <= idx < len", [ge0(IDX), lt0(lsub(IDX, LEN))], ("elem", IDX)),
    ("idx >= len", [ge0(lsub(IDX, LEN))], ("oob",)),
]


def equal_on(poly, a, b):
    """a == b everywhere on the polyhedron"""
    d = lsub(a, b)
    return poly.with_(ge0(ladd(d, const(-1)))).empty() and poly.with_(ge0(ladd(lneg(d), const(-1)))).empty()


def check_kernel(F, f, idx_arg, len_arg, kind):
    """kind: 'access' (raises when out of range, accesses an element otherwise) or 'option' (None / Some(pos)).
    -> (leaves evaluated, violations, undecided count)"""
    ev = IdxEvaluator(F)
    viol, undec, n = [], 0, 0
    for name, cons, want in INDEX_REGIONS:
        poly = Poly([ge0(LEN)] + cons)
        if poly.empty():
            continue
        args = [TOP] * f.argc
        args[idx_arg - 1] = IDX
        if len_arg:
            args[len_arg - 1] = LEN
        for (p, outcome, precise, trace) in ev.evaluate(f, args, poly):
            n += 1
            if not precise or outcome[0] in ("giveup", "limit"):
                undec += 1
                continue
            got = None
            if outcome[0] == "raise":
                got = ("oob",)
            elif outcome[0] == "access":
                got = ("elem", outcome[1])
            elif outcome[0] == "return":
                v = outcome[1]
                if kind == "option" and isinstance(v, tuple) and v[0] == "opt":
                    got = ("oob",) if v[1] == "None" else ("elem", v[2] if len(v) > 2 else TOP)
            if got is None or (got[0] == "elem" and not is_lin(got[1])):
                undec += 1
                continue
            same = got[0] == want[0] and (got[0] == "oob" or equal_on(p, got[1], want[1]))
            if not same:
                w = p.witness()
                if w is None:
                    undec += 1
                    continue
                viol.append({"region": name, "expected": "out of range" if want[0] == "oob" else
                             "element " + fmt(want[1]),
                             "got": "out of range" if got[0] == "oob" else "element " + fmt(got[1]),
                             "witness": {k: w[k] for k in ("idx", "len")}})
    check_kernel.reasons = sorted(ev.reasons)
    return n, viol, undec


# ----------------------------------------------------------------------------------------------------------------
# 2. slices: Python's slice.indices(len), then  i = start; while (i < end | i > end): take i; i += step
def _bound_regions(v, positive, is_start):
    """regions of one explicit slice bound v -> [(name, constraints, normalised form)]"""
    vl = ladd(v, LEN)
    if positive:
        return [("%s < -len", [lt0(vl)], const(0)),
                ("-len <= %s < 0", [ge0(vl), lt0(v)], vl),
                ("0 <= %s <= len", [ge0(v), ge0(lsub(LEN, v))], v),
                ("%s > len", [lt0(lsub(LEN, v))], LEN)]
    lm1 = ladd(LEN, const(-1))
    return [("%s < -len", [lt0(vl)], const(-1)),
            ("-len <= %s < 0", [ge0(vl), lt0(v)], vl),
            ("0 <= %s < len", [ge0(v), lt0(lsub(v, LEN))], v),
            ("%s >= len", [ge0(lsub(v, LEN))], lm1)]


def check_slice_kernel(F, f, arg_start, arg_end, arg_step, max_viol=6):
    """-> (leaves, violations, undecided). Arguments are 1-based positions of start / end / step."""
    ev = IdxEvaluator(F, loop_limit=3)
    viol, undec, n = [], 0, 0
    step_is_opt = "Option" in f.local_ty(arg_step)
    step_cfgs = [(True, True), (False, True)] + ([(True, False)] if step_is_opt else [])
    for positive, has_step in step_cfgs:
        step_con = [ge0(ladd(STEP, const(-1)))] if positive else [lt0(STEP)]
        if not has_step:            # omitted step = 1
            step_con = [ge0(ladd(STEP, const(-1))), ge0(lsub(const(1), STEP))]
        for has_start in (False, True):
            for has_end in (False, True):
                s_regs = _bound_regions(IDX, positive, True) if has_start else \
                    [("start omitted", [], const(0) if positive else ladd(LEN, const(-1)))]
                e_regs = _bound_regions(END, positive, False) if has_end else \
                    [("end omitted", [], LEN if positive else const(-1))]
                for (sn, sc, S) in s_regs:
                    for (en, ec, E) in e_regs:
                        poly = Poly([ge0(LEN)] + step_con + sc + ec)
                        if poly.empty():
                            continue
                        args = [TOP] * f.argc
                        args[arg_start - 1] = ("opt", "Some", IDX) if has_start else ("opt", "None")
                        args[arg_end - 1] = ("opt", "Some", END) if has_end else ("opt", "None")
                        args[arg_step - 1] = (("opt", "Some", STEP) if has_step else ("opt", "None")) \
                            if step_is_opt else STEP
                        cfg = "step %s, %s, %s" % (("> 0" if positive else "< 0") if has_step else "omitted",
                                                   (sn % "start") if has_start else sn,
                                                   (en % "end") if has_end else en)
                        # continue conditions of iteration k (k = 0, 1):  S + k*step < E   /   > E
                        def cont(k):
                            cur = ladd(S, lscale(STEP, k))
                            return lsub(cur, E) if positive else lsub(E, cur)      # < 0  <=> continue
                        for (p, outcome, precise, trace) in ev.evaluate(f, args, poly):
                            n += 1
                            if not precise or outcome[0] == "giveup":
                                undec += 1
                                continue
                            gets = [g for g in trace if g[0] == "get"]
                            bad = None
                            wp = p
                            if outcome[0] == "access":
                                undec += 1          # a single-element access inside a slice kernel: not modelled
                                continue
                            if outcome[0] == "return" and not gets:
                                rv_ = outcome[1]
                                if isinstance(rv_, tuple) and rv_ and rv_[0] == "res" and len(rv_) > 2:
                                    rv_ = rv_[2]
                                if isinstance(rv_, tuple) and rv_ and rv_[0] == "seq":
                                    outcome = ("bulk", rv_[1], rv_[2])
                            if outcome[0] == "raise":
                                bad = "the kernel panics / raises although the step is not zero"
                            elif outcome[0] == "bulk":
                                a, b = outcome[1], outcome[2]
                                one = equal_on(p, STEP, const(1))
                                nonempty = p.with_(lt0(cont(0)))          # S < E possible here
                                if not one:
                                    bad = "a contiguous range %s..%s is returned although the step is not 1" % (
                                        fmt(a), fmt(b))
                                elif not nonempty.empty() and not (equal_on(nonempty, a, S) and equal_on(nonempty, b, E)):
                                    bad = "the contiguous range %s..%s is returned, Python takes %s..%s" % (
                                        fmt(a), fmt(b), fmt(S), fmt(E))
                                    wp = nonempty
                                else:
                                    empty_side = p.with_(ge0(cont(0)))     # S >= E: result must be empty, i.e. a >= b
                                    if not empty_side.empty() and not empty_side.with_(lt0(lsub(a, b))).empty():
                                        bad = "the non-empty range %s..%s is returned where Python's slice is empty" % (
                                            fmt(a), fmt(b))
                                        wp = empty_side.with_(lt0(lsub(a, b)))
                            else:
                                for k, g in enumerate(gets[:2]):
                                    want = ladd(S, lscale(STEP, k))
                                    if not equal_on(p, g[1], want):
                                        bad = "element %d of the result is taken from position %s, Python takes %s" % (
                                            k, fmt(g[1]), fmt(want))
                                        break
                                    if not p.with_(ge0(cont(k))).empty():
                                        bad = "element %d (position %s) is taken although the slice is already " \
                                              "exhausted there" % (k, fmt(g[1]))
                                        wp = p.with_(ge0(cont(k)))
                                        break
                                    if not g[2]:
                                        bad = "position %s lies outside the container" % fmt(g[1])
                                        break
                                if bad is None and len(gets) < 2 and outcome[0] == "return":
                                    k = len(gets)
                                    if not p.with_(lt0(cont(k))).empty():
                                        bad = "the result stops after %d element(s) although position %s is still " \
                                              "inside the slice" % (k, fmt(ladd(S, lscale(STEP, k))))
                                        wp = p.with_(lt0(cont(k)))
                            if bad:
                                w = wp.witness()
                                if w is None:
                                    undec += 1
                                    continue
                                if len(viol) < max_viol:
                                    viol.append({"case": cfg, "what": bad,
                                                 "witness": {"start": w["idx"] if has_start else None,
                                                             "end": w["end"] if has_end else None,
                                                             "step": w["step"], "len": w["len"]}})
    check_slice_kernel.reasons = sorted(ev.reasons)
    return n, viol, undec


# ----------------------------------------------------------------------------------------------------------------
# 3. range iteration:  next() yields cur while it is before end (in the direction of step) and advances by step
def check_range_next(F, f):
    """-> (leaves, violations, undecided) for `<PyRange as Iterator>::next`"""
    ev = IdxEvaluator(F)
    viol, undec, n = [], 0, 0
    cases = [
        ("step > 0, cur < end", [ge0(ladd(STEP, const(-1))), lt0(lsub(IDX, END))], True),
        ("step > 0, cur >= end", [ge0(ladd(STEP, const(-1))), ge0(lsub(IDX, END))], False),
        ("step < 0, cur > end", [lt0(STEP), lt0(lsub(END, IDX))], True),
        ("step < 0, cur <= end", [lt0(STEP), ge0(lsub(END, IDX))], False),
    ]
    for name, cons, yields in cases:
        poly = Poly(cons)
        me = ("struct", {"cur": IDX, "end": END, "step": STEP})
        for (p, outcome, precise, trace) in ev.evaluate_with_env(f, [me], poly):
            n += 1
            if not precise or outcome[0] != "return":
                undec += 1
                continue
            val, env = outcome[1], outcome[2]
            if not (isinstance(val, tuple) and val and val[0] == "opt"):
                undec += 1
                continue
            bad = None
            if yields:
                if val[1] != "Some":
                    bad = "the range stops although cur is still before end"
                elif not (is_lin(val[2]) and equal_on(p, val[2], IDX)):
                    bad = "next() yields %s instead of cur" % fmt(val[2])
                else:
                    after = env.get(1)
                    cur2 = after[1].get("cur") if isinstance(after, tuple) and after and after[0] == "struct" else None
                    if cur2 is None or not is_lin(cur2):
                        undec += 1
                        continue
                    if not equal_on(p, cur2, ladd(IDX, STEP)):
                        bad = "after yielding, cur becomes %s instead of cur + step" % fmt(cur2)
            elif val[1] != "None":
                bad = "next() yields a value although cur has reached end"
            if bad:
                w = p.witness()
                if w is None:
                    undec += 1
                    continue
                viol.append({"case": name, "what": bad, "witness": {"cur": w["idx"], "end": w["end"], "step": w["step"]}})
    check_range_next.reasons = sorted(ev.reasons)
    return n, viol, undec

