"""IDXEVAL — relational abstract interpretation of index-normalisation kernels.

Values are linear forms  a*idx + b*len + c  over the two symbolic inputs of a kernel (the index argument and the
container length); the abstract state also carries a convex polyhedron over (idx, len) that records every branch
decision taken so far. A comparison of two linear forms that is not decided by the polyhedron SPLITS the state (the
polyhedron is refined with the condition and with its negation), so every leaf of the exploration is a region of the
input space on which the kernel's behaviour is a single outcome: raise / None / access element <form> / Some(<form>).
The leaves are compared with Python's definition:

    idx < -len            -> out of range          -len <= idx < 0   -> element  idx + len
    0 <= idx < len        -> element  idx          idx >= len        -> out of range

Nothing is executed and no concrete value is ever computed: the input space is covered by finitely many polyhedra.
Operations without a transfer function yield TOP; a path that branched on TOP is 'imprecise' and is never reported (it
is counted in the evidence as undecided) — this engine only reports violations it can state with a region.
"""
from fractions import Fraction

from engines import callee_generic, callee_name, op_place

TOP = ("top",)
UNIT = ("unit",)


def lin(a, b, c):
    return ("lin", a, b, c)


IDX = lin(1, 0, 0)
LEN = lin(0, 1, 0)


def is_lin(v):
    return isinstance(v, tuple) and v and v[0] == "lin"


def ladd(x, y):
    return lin(x[1] + y[1], x[2] + y[2], x[3] + y[3])


def lneg(x):
    return lin(-x[1], -x[2], -x[3])


def lsub(x, y):
    return ladd(x, lneg(y))


def fmt(v):
    if not is_lin(v):
        return str(v)
    parts = []
    for co, nm in ((v[1], "idx"), (v[2], "len")):
        if co == 0:
            continue
        parts.append(("-" if co < 0 else "+") + ("" if abs(co) == 1 else str(abs(co)) + "*") + nm)
    if v[3] or not parts:
        parts.append(("-" if v[3] < 0 else "+") + str(abs(v[3])))
    s = " ".join(parts)
    return s[1:].strip() if s.startswith("+") else s


# ----------------------------------------------------------------------------------------------------------------
# 2-D polyhedra over (x = idx, y = len):  list of (a, b, c) meaning a*x + b*y + c >= 0
class Poly:
    def __init__(self, cons=()):
        self.cons = list(cons)

    def with_(self, con):
        return Poly(self.cons + [con])

    def _points(self):
        pts = []
        cs = self.cons
        for i in range(len(cs)):
            for j in range(i + 1, len(cs)):
                a1, b1, c1 = cs[i]
                a2, b2, c2 = cs[j]
                det = a1 * b2 - a2 * b1
                if det == 0:
                    continue
                x = Fraction(-c1 * b2 + c2 * b1, det)
                y = Fraction(-a1 * c2 + a2 * c1, det)
                pts.append((x, y))
        for (a, b, c) in cs:       # points on each boundary line (for polyhedra without vertices)
            if a != 0:
                pts.append((Fraction(-c, a), Fraction(0)))
            if b != 0:
                pts.append((Fraction(0), Fraction(-c, b)))
        pts.append((Fraction(0), Fraction(0)))
        return [p for p in pts if all(a * p[0] + b * p[1] + c >= 0 for (a, b, c) in cs)]

    def _rays(self):
        cand = [(0, 1), (1, 0), (-1, 0), (0, -1)]
        for (a, b, c) in self.cons:
            cand += [(-b, a), (b, -a)]
        return [d for d in cand if d != (0, 0) and all(a * d[0] + b * d[1] >= 0 for (a, b, c) in self.cons)]

    def empty(self):
        return not self._points()

    def bounds(self, f):
        """(min, max) of the linear form f over the polyhedron; None = unbounded."""
        pts = self._points()
        if not pts:
            return (None, None)
        vals = [f[1] * x + f[2] * y + f[3] for (x, y) in pts]
        lo, hi = min(vals), max(vals)
        for (dx, dy) in self._rays():
            g = f[1] * dx + f[2] * dy
            if g < 0:
                lo = None
            if g > 0:
                hi = None
        return (lo, hi)

    def always_ge0(self, f):
        lo, _ = self.bounds(f)
        return lo is not None and lo >= 0

    def always_lt0(self, f):
        _, hi = self.bounds(f)
        return hi is not None and hi < 0

    def witness(self):
        for ln in range(0, 6):
            for ix in range(-8, 9):
                if all(a * ix + b * ln + c >= 0 for (a, b, c) in self.cons):
                    return {"idx": ix, "len": ln}
        return None


def ge0(f):     # f >= 0
    return (f[1], f[2], f[3])


def lt0(f):     # f < 0  <=>  -f - 1 >= 0   (integers)
    return (-f[1], -f[2], -f[3] - 1)


# ----------------------------------------------------------------------------------------------------------------
class State:
    __slots__ = ("env", "poly", "precise", "block")

    def __init__(self, env, poly, precise=True, block=0):
        self.env, self.poly, self.precise, self.block = env, poly, precise, block

    def fork(self, poly=None, block=None):
        return State(dict(self.env), poly if poly is not None else self.poly, self.precise,
                     self.block if block is None else block)


INT_BIN = {"Add", "Sub", "AddWithOverflow", "SubWithOverflow", "AddUnchecked", "SubUnchecked"}
CMP = {"Lt": lambda a, b: (lsub(a, b), True), "Ge": lambda a, b: (lsub(a, b), False),
       "Gt": lambda a, b: (lsub(b, a), True), "Le": lambda a, b: (lsub(b, a), False)}


class IdxEvaluator:
    """evaluate(f, args) -> list of leaves (poly, outcome, precise); outcome in
       ("raise",) ("return", value) ("access", form) ("diverge",)"""

    def __init__(self, F, max_states=4000):
        self.F = F
        self.max_states = max_states
        self.steps = 0

    # -- operands / places --------------------------------------------------------------------------------------
    def place_val(self, st, pl):
        v = st.env.get(pl["l"], TOP)
        for e in pl["p"]:
            if e[0] == "deref":
                continue
            if e[0] == "f" and isinstance(v, tuple) and v and v[0] in ("opt", "res") and len(v) > 2:
                v = v[2]
                continue
            if e[0] == "dc":
                continue
            if e[0] == "f" and isinstance(v, tuple) and v and v[0] == "pair":
                try:
                    v = v[1 + int(e[3])]
                except Exception:
                    return TOP
                continue
            return TOP
        return v

    def operand(self, st, o):
        if "c" in o:
            t = o["c"].split("_")[0]
            if t.lstrip("-").isdigit():
                return lin(0, 0, int(t))
            if o["c"] in ("true", "false"):
                return ("bool", o["c"] == "true")
            if o["c"] == "()":
                return UNIT
            return TOP
        pl = op_place(o)
        return self.place_val(st, pl) if pl is not None else TOP

    # -- splitting ----------------------------------------------------------------------------------------------
    def split_sign(self, st, f):
        """-> [(state, True if f < 0 else False)] refined so that the sign of f is constant."""
        if st.poly.always_lt0(f):
            return [(st, True)]
        if st.poly.always_ge0(f):
            return [(st, False)]
        out = []
        for con, neg in ((lt0(f), True), (ge0(f), False)):
            p = st.poly.with_(con)
            if not p.empty():
                out.append((st.fork(poly=p), neg))
        return out

    # -- rvalues ------------------------------------------------------------------------------------------------
    def assign(self, st, s):
        """-> list of successor states (splits may happen in casts / comparisons)."""
        d = s["d"]
        rv = s["rv"]
        r = rv["r"]

        def put(state, val):
            if not d["p"]:
                state.env[d["l"]] = val
            return state

        if r == "use":
            return [put(st, self.operand(st, rv["o"]))]
        if r in ("ref", "cfd", "rawptr"):
            return [put(st, self.place_val(st, rv["p"]))]
        if r == "cast":
            v = self.operand(st, rv["o"])
            ty = rv.get("ty", "")
            if is_lin(v) and ty.startswith("u"):
                out = []
                for s2, neg in self.split_sign(st, v):
                    out.append(put(s2, TOP if neg else v))      # a negative value wraps: no linear form
                return out
            return [put(st, v if is_lin(v) else TOP)]
        if r == "un":
            v = self.operand(st, rv["o"])
            if rv["op"] == "Neg" and is_lin(v):
                return [put(st, lneg(v))]
            if rv["op"] == "Not" and isinstance(v, tuple) and v[0] == "bool":
                return [put(st, ("bool", not v[1]))]
            if rv["op"] == "PtrMetadata":
                return [put(st, LEN)]
            return [put(st, TOP)]
        if r == "len":
            return [put(st, LEN)]
        if r == "bin":
            a, b = self.operand(st, rv["a"]), self.operand(st, rv["b"])
            op = rv["op"]
            if op in INT_BIN and is_lin(a) and is_lin(b):
                v = ladd(a, b) if op.startswith("Add") else lsub(a, b)
                if "WithOverflow" in op:
                    return [put(st, ("pair", v, ("bool", False)))]
                return [put(st, v)]
            if op in ("Mul", "MulWithOverflow") and is_lin(a) and is_lin(b):
                k, x = (a, b) if (a[1] == 0 and a[2] == 0) else (b, a)
                if k[1] == 0 and k[2] == 0:
                    return [put(st, lin(x[1] * k[3], x[2] * k[3], x[3] * k[3]))]
                return [put(st, TOP)]
            if op in CMP and is_lin(a) and is_lin(b):
                f, when_neg = CMP[op](a, b)
                return [put(s2, ("bool", neg == when_neg)) for s2, neg in self.split_sign(st, f)]
            if op in ("Eq", "Ne") and is_lin(a) and is_lin(b):
                f = lsub(a, b)
                out = []
                for s2, neg in self.split_sign(st, f):
                    if neg:
                        out.append(put(s2, ("bool", op == "Ne")))
                    else:
                        for s3, neg2 in self.split_sign(s2, lneg(f)):     # f >= 0: is -f < 0 (f > 0) ?
                            out.append(put(s3, ("bool", (op == "Ne") if neg2 else (op == "Eq"))))
                return out
            if op in ("BitAnd", "BitOr") and a[0] == "bool" and b[0] == "bool":
                return [put(st, ("bool", (a[1] and b[1]) if op == "BitAnd" else (a[1] or b[1])))]
            return [put(st, TOP)]
        if r == "agg":
            if rv.get("ak") == "adt" and rv.get("adt", "").endswith("option::Option"):
                pay = self.operand(st, rv["ops"][0]) if rv["ops"] else None
                return [put(st, ("opt", rv["variant"]) + ((pay,) if pay is not None else ()))]
            if rv.get("ak") == "adt" and rv.get("adt", "").endswith("result::Result"):
                pay = self.operand(st, rv["ops"][0]) if rv["ops"] else None
                return [put(st, ("res", rv["variant"]) + ((pay,) if pay is not None else ()))]
            if rv.get("ak") == "tuple" and len(rv["ops"]) == 2:
                return [put(st, ("pair", self.operand(st, rv["ops"][0]), self.operand(st, rv["ops"][1])))]
            return [put(st, TOP)]
        if r == "discr":
            v = self.place_val(st, rv["p"])
            if isinstance(v, tuple) and v and v[0] in ("opt", "res"):
                return [put(st, ("variant", v[1], dict((n, k) for k, n in rv.get("vars", []))))]
            return [put(st, TOP)]
        return [put(st, TOP)]

    # -- calls --------------------------------------------------------------------------------------------------
    def call(self, st, t, depth):
        """-> list of (state, result value or ('raise',)/('diverge',))"""
        g = callee_generic(t) or ""
        n = callee_name(t) or ""
        last = g.split("::")[-1].split("<")[0]
        args = [self.operand(st, o) for o in t["args"]]
        if n.endswith("errors::raise") or t.get("to") is None:
            return [(st, ("raise",))]
        if last == "len" and ("slice" in g or "Vec" in g or "str" in g):
            return [(st, LEN)]
        if last in ("unsigned_abs", "abs") and args and is_lin(args[0]):
            return [(s2, lneg(args[0]) if neg else args[0]) for s2, neg in self.split_sign(st, args[0])]
        if last in ("saturating_sub", "saturating_add", "wrapping_add", "wrapping_sub") and len(args) == 2 and \
                is_lin(args[0]) and is_lin(args[1]):
            v = lsub(args[0], args[1]) if last.endswith("sub") else ladd(args[0], args[1])
            unsigned = "usize" in (t["f"].get("self") or g) or "u64" in (t["f"].get("self") or g)
            if unsigned and last == "saturating_sub":
                return [(s2, lin(0, 0, 0) if neg else v) for s2, neg in self.split_sign(st, v)]
            if unsigned and last == "wrapping_sub":
                return [(s2, TOP if neg else v) for s2, neg in self.split_sign(st, v)]
            return [(st, v)]
        if last in ("checked_sub", "checked_add") and len(args) == 2 and is_lin(args[0]) and is_lin(args[1]):
            v = lsub(args[0], args[1]) if last.endswith("sub") else ladd(args[0], args[1])
            unsigned = "usize" in (t["f"].get("self") or g)
            if unsigned:
                return [(s2, ("opt", "None") if neg else ("opt", "Some", v)) for s2, neg in self.split_sign(st, v)]
            return [(st, ("opt", "Some", v))]
        if last in ("min", "max") and len(args) == 2 and is_lin(args[0]) and is_lin(args[1]):
            f = lsub(args[0], args[1])
            return [(s2, (args[0] if neg else args[1]) if last == "min" else (args[1] if neg else args[0]))
                    for s2, neg in self.split_sign(st, f)]
        if last in ("try_from", "try_into") and args and is_lin(args[0]):
            inst = t["f"].get("inst", "") + (t["f"].get("self") or "")
            if "usize" in inst or "u64" in inst:
                return [(s2, ("res", "Err", TOP) if neg else ("res", "Ok", args[0]))
                        for s2, neg in self.split_sign(st, args[0])]
            return [(st, ("res", "Ok", args[0]))]
        if last in ("from", "into", "clone", "deref", "borrow", "as_ref") and len(args) == 1:
            return [(st, args[0])]
        if last in ("ok",) and args and isinstance(args[0], tuple) and args[0][0] == "res":
            v = args[0]
            return [(st, ("opt", "Some", v[2]) if v[1] == "Ok" else ("opt", "None"))]
        if last in ("unwrap", "expect") and args and isinstance(args[0], tuple) and args[0][0] in ("opt", "res"):
            v = args[0]
            if v[1] in ("Some", "Ok"):
                return [(st, v[2] if len(v) > 2 else TOP)]
            return [(st, ("raise",))]
        if last in ("is_some", "is_ok", "is_none", "is_err") and args and isinstance(args[0], tuple) and \
                args[0][0] in ("opt", "res"):
            yes = args[0][1] in ("Some", "Ok")
            return [(st, ("bool", yes if last in ("is_some", "is_ok") else not yes))]
        # crate-local helper taking the symbolic values: inline
        h = self.F.fns.get(n)
        if h is not None and depth < 3 and any(is_lin(a) for a in args) and len(h.blocks) < 60:
            out = []
            for (poly, outcome, precise) in self._run(h, args, st.poly, depth + 1):
                s2 = st.fork(poly=poly)
                s2.precise = st.precise and precise
                if outcome[0] == "return":
                    out.append((s2, outcome[1]))
                elif outcome[0] == "access":
                    out.append((s2, ("access-in-callee", outcome[1])))
                else:
                    out.append((s2, outcome))
            return out
        return [(st, TOP)]

    # -- driver -------------------------------------------------------------------------------------------------
    def evaluate(self, f, args, poly=None):
        self.steps = 0
        return self._run(f, args, poly or Poly([(0, 1, 0)]), 0)

    def _run(self, f, args, poly, depth):
        env = {}
        for i, a in enumerate(args):
            env[i + 1] = a
        leaves = []
        work = [State(env, poly, True, 0)]
        visits = {}
        while work:
            st = work.pop()
            self.steps += 1
            if self.steps > self.max_states:
                leaves.append((st.poly, ("giveup",), False))
                continue
            key = st.block
            visits[key] = visits.get(key, 0) + 1
            if visits[key] > 400:                  # a loop: this engine does not handle them
                leaves.append((st.poly, ("giveup",), False))
                continue
            b = f.blocks[st.block]
            states = [st]
            for s in b["st"]:
                if s["s"] != "assign":
                    continue
                nxt = []
                for s0 in states:
                    nxt.extend(self.assign(s0, s))
                states = nxt
            t = b["term"]
            k = t["t"]
            for s0 in states:
                if k == "goto":
                    work.append(s0.fork(block=t["to"]))
                elif k in ("drop", "falseedge", "falseunwind"):
                    work.append(s0.fork(block=t.get("to", t.get("real"))))
                elif k == "return":
                    leaves.append((s0.poly, ("return", s0.env.get(0, TOP)), s0.precise))
                elif k in ("unreachable", "resume"):
                    continue
                elif k == "assert":
                    if t.get("msg") == "bounds":
                        leaves.append((s0.poly, ("access", self.operand(s0, t["index"])), s0.precise))
                    else:
                        work.append(s0.fork(block=t["to"]))
                elif k == "switch":
                    v = self.operand(s0, t["on"])
                    targets = t["targets"]
                    if isinstance(v, tuple) and v[0] == "bool":
                        tg = [x for val, x in targets if val == "0"] if not v[1] else [t["otherwise"]]
                        if v[1] and any(val == "1" for val, _ in targets):
                            tg = [x for val, x in targets if val == "1"]
                        for x in tg:
                            work.append(s0.fork(block=x))
                    elif isinstance(v, tuple) and v[0] == "variant":
                        idx = v[2].get(v[1])
                        tg = [x for val, x in targets if idx is not None and val == str(idx)]
                        for x in (tg or [t["otherwise"]]):
                            work.append(s0.fork(block=x))
                    else:
                        for x in sorted(set([x for _, x in targets] + [t["otherwise"]])):
                            s1 = s0.fork(block=x)
                            s1.precise = False
                            work.append(s1)
                elif k in ("call", "tailcall"):
                    g = callee_generic(t) or ""
                    if g.endswith("Index::index") or g.endswith("IndexMut::index_mut"):
                        leaves.append((s0.poly, ("access", self.operand(s0, t["args"][1])), s0.precise))
                        continue
                    for (s1, res) in self.call(s0, t, depth):
                        if isinstance(res, tuple) and res and res[0] in ("raise", "diverge", "giveup"):
                            leaves.append((s1.poly, res, s1.precise))
                        elif isinstance(res, tuple) and res and res[0] == "access-in-callee":
                            leaves.append((s1.poly, ("access", res[1]), s1.precise))
                        elif t.get("to") is None:
                            leaves.append((s1.poly, ("raise",), s1.precise))
                        else:
                            s2 = s1.fork(block=t["to"])
                            if not t["d"]["p"]:
                                s2.env[t["d"]["l"]] = res
                            work.append(s2)
                else:
                    leaves.append((s0.poly, ("giveup",), False))
        return leaves


# ----------------------------------------------------------------------------------------------------------------
REGIONS = [
    # name, constraints, expected ('oob',) or ('elem', form)
    ("idx < -len", [lt0(ladd(IDX, LEN))], ("oob",)),
    ("-len <= idx < 0", [ge0(ladd(IDX, LEN)), lt0(IDX)], ("elem", ladd(IDX, LEN))),
    ("0 <= idx < len", [ge0(IDX), lt0(lsub(IDX, LEN))], ("elem", IDX)),
    ("idx >= len", [ge0(lsub(IDX, LEN))], ("oob",)),
]


def check_kernel(F, f, idx_arg, len_arg, kind):
    """kind: 'access' (raises when out of range, accesses an element otherwise) or 'option' (None / Some(pos)).
    -> (leaves evaluated, violations [(region, outcome text, witness)], undecided count)"""
    ev = IdxEvaluator(F)
    viol, undec, n = [], 0, 0
    for name, cons, want in REGIONS:
        poly = Poly([(0, 1, 0)] + cons)
        if poly.empty():
            continue
        args = [TOP] * f.argc
        args[idx_arg - 1] = IDX
        if len_arg:
            args[len_arg - 1] = LEN
        for (p, outcome, precise) in ev.evaluate(f, args, poly):
            n += 1
            if not precise or outcome[0] == "giveup":
                undec += 1
                continue
            got = None
            if outcome[0] == "raise":
                got = ("oob",)
            elif outcome[0] == "access":
                got = ("elem", outcome[1])
            elif outcome[0] == "return":
                v = outcome[1]
                if kind == "option" and isinstance(v, tuple) and v[0] == "opt":
                    got = ("oob",) if v[1] == "None" else ("elem", v[2] if len(v) > 2 else TOP)
                elif kind == "access":
                    undec += 1       # returned without an access we could see
                    continue
                else:
                    undec += 1
                    continue
            if got is None or (got[0] == "elem" and not is_lin(got[1])):
                undec += 1
                continue
            if got != want:
                viol.append({"region": name, "expected": "out of range" if want[0] == "oob" else
                             "element " + fmt(want[1]),
                             "got": "out of range" if got[0] == "oob" else "element " + fmt(got[1]),
                             "witness": p.witness()})
    return n, viol, undec
