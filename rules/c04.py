"""C04 — arithmetic follows the documented Python-style semantics for all operands (DESIGN.md §4 C04).

Decided by abstract interpretation over the sign lattice (rules/signeval.py), for ALL operand sign combinations:
  1 ZERODIV   every helper the emitter can reference (py_div, py_mod, py_floor_div and the _i64/_f64 wrappers, for
              every int/float instantiation) diverges through raise_zero_division when the divisor is zero and
              never evaluates `/` or `%` with a zero divisor; the error text is the documented one
  2 KERNEL    the correction tables of py_mod_i64_impl / py_floor_div_i64_impl / py_mod_f64_impl (both copies:
              incan_core and incan_stdlib) equal Python's definition for all 6 sign cases; float `//` is
              floor(x / y); `/` is x / y after to_float
  3 SIBLING   the compile-time core and the runtime copy yield identical tables
  4 NOPANIC   no other panic site is reachable in the helpers' closure (the i64::MIN / -1 overflow assert excepted)
  5 SELECT    determine_binop_plan picks py_mod*/py_floor_div*/py_div for %, //, / (table shared with C07)
"""
from engines import callee_generic, callee_name
from harness import Finding
from mireval import OutOfFragment
from signeval import SignEvaluator, num

EXPLANATION = (
    "Abstract interpretation over the sign lattice {-,0,+} of the arithmetic helpers' MIR. For every helper the "
    "emitter can reference and every int/float instantiation, and for every sign combination of dividend, "
    "remainder and divisor (the kernels branch only on comparisons with zero, so the 6 sign cases decide every "
    "branch for ALL i64/f64 operands): a zero divisor reaches raise_zero_division before any `/` or `%`; a "
    "non-zero divisor returns exactly r or r+b (mod) / q or q-1 (floor div) with the correction applied iff r != 0 "
    "and sign(r) != sign(b) — Python's definition, which implies a == (a//b)*b + a%b and 'sign of the divisor'; "
    "float `//` is floor(x/y); `/` is x/y on promoted operands. Both copies of the kernels (incan_core, "
    "incan_stdlib) are tabulated and must agree. The error constructor's kind and text constants are compared with "
    "the documented `ZeroDivisionError: float division by zero`. Remaining panic sites in the closure are "
    "enumerated. IEEE/Rust semantics of / % floor are assumed, as is q-1 not overflowing (r != 0 implies |b| >= 2).")

WRAPPERS = {
    # name: (kind, type instantiations)
    "incan_stdlib::num::py_div": ("div", [("i64", "i64"), ("i64", "f64"), ("f64", "i64"), ("f64", "f64")]),
    "incan_stdlib::num::py_mod": ("mod", [("i64", "i64"), ("i64", "f64"), ("f64", "i64"), ("f64", "f64")]),
    "incan_stdlib::num::py_floor_div": ("floordiv", [("i64", "i64"), ("i64", "f64"), ("f64", "i64"), ("f64", "f64")]),
    "incan_stdlib::num::py_mod_i64": ("mod", [("i64", "i64")]),
    "incan_stdlib::num::py_mod_f64": ("mod", [("f64", "f64")]),
    "incan_stdlib::num::py_floor_div_i64": ("floordiv", [("i64", "i64")]),
    "incan_stdlib::num::py_floor_div_f64": ("floordiv", [("f64", "f64")]),
}

KERNELS = {
    "incan_core::py_mod_i64_impl": ("mod", False), "incan_stdlib::num::py_mod_i64_impl": ("mod", False),
    "incan_core::py_floor_div_i64_impl": ("floordiv", False),
    "incan_stdlib::num::py_floor_div_i64_impl": ("floordiv", False),
    "incan_core::py_mod_f64_impl": ("mod", True), "incan_stdlib::num::py_mod_f64_impl": ("mod", True),
}

SIGNS = ("-", "+")


def expected(kind, any_float, rs, bs):
    corr = rs != "0" and rs != bs
    if kind == "mod":
        return "(r+b)" if corr else "r"
    if kind == "floordiv":
        if any_float:
            return "floor((a/b))"
        return "(q-1)" if corr else "q"
    return "(a/b)"


def run_case(F, fn, lty, rty, a_sign, r_sign, b_sign):
    ev = SignEvaluator(F, {"r": r_sign, "q": None}, tybind={"L": lty, "R": rty})
    a = num("a", a_sign, lty == "f64")
    b = num("b", b_sign, rty == "f64")
    res = ev.run(fn, [a, b])
    return res, ev


def run(facts, rep, tier):
    F = facts["default"]
    from engines import eqop
    eqop(F, rep, ('crates/incan_core/src/lib.rs', 'crates/incan_stdlib/src/num.rs', 'crates/incan_stdlib/src/errors.rs', 'crates/incan_core/src/errors.rs', 'src/backend/ir/conversions.rs'))
    rep.assumptions += [
        "IEEE-754 / Rust semantics of `/`, `%` (truncating; remainder takes the sign of the dividend or is zero) and "
        "f64::floor",
        "q - 1 cannot overflow: the correction is applied only when r != 0, which implies |b| >= 2 (argument by "
        "hand); r + b has operands of opposite sign",
        "i64::MIN // -1 and i64::MIN % -1 are excluded by the property statement",
    ]
    # which helpers can the emitter reference? (LINK: string constants of the plan function)
    plan = F.one_fn("conversions::determine_binop_plan")
    referenced = set()
    if rep.anchor("ZERODIV", "conversions::determine_binop_plan", plan):
        from engines import all_string_constants, same_file_family
        idents = sorted(set(v for q in same_file_family(F, plan) for _, v in all_string_constants(F.fns[q])))
        referenced = {"incan_stdlib::num::" + i for i in idents if i.startswith("py_")}
        rep.floor("ZERODIV", "num helpers referenced by the emitter's templates", len(referenced), 7)
        for r in sorted(referenced):
            if r not in WRAPPERS:
                rep.add(Finding("ZERODIV", "ZERODIV|unlisted-helper|%s" % r,
                                "the emitter references %s, which the zero-divisor analysis does not know: a "
                                "template started using a helper outside the guarded set" % r,
                                file=plan.file, line=plan.line, fn=plan.path))
    tables = {}
    # ---- 1 ZERODIV + wrapper tables -----------------------------------------------------------------------
    for name, (kind, insts) in sorted(WRAPPERS.items()):
        fn = F.fn(name)
        if not rep.anchor("ZERODIV", name, fn):
            continue
        rep.functions.add(fn.path)
        for (lty, rty) in insts:
            anyf = "f64" in (lty, rty)
            tag = "%s<%s,%s>" % (name.split("::")[-1], lty, rty)
            # zero divisor
            for a_sign in ("-", "0", "+"):
                inst = "%s:b=0,a=%s" % (tag, a_sign)
                try:
                    res, ev = run_case(F, fn, lty, rty, a_sign, "0", "0")
                except OutOfFragment as e:
                    rep.oblige("ZERODIV", inst, False)
                    rep.add(Finding("ZERODIV", "ZERODIV|%s|rule-out-of-fragment" % tag,
                                    "cannot analyse %s: %s; failing closed" % (tag, e), file=fn.file, line=fn.line,
                                    fn=fn.path))
                    continue
                raised = res[0] == "diverges" and res[1].endswith("raise_zero_division")
                evaluated = [e for e in ev.events if e[0] in ("div-by-zero", "rem-by-zero")]
                ok = raised and not evaluated
                rep.oblige("ZERODIV", inst, ok, sample={"rule": "ZERODIV", "helper": tag, "divisor": "0",
                                                        "dividend_sign": a_sign,
                                                        "outcome": "raise_zero_division" if raised else str(res)[:80]})
                if not ok:
                    rep.add(Finding("ZERODIV", "ZERODIV|%s|zero-divisor" % tag,
                                    "%s with a zero divisor %s instead of stopping with ZeroDivisionError"
                                    % (tag, "evaluates / or % on zero" if evaluated else
                                       "returns %s" % (res[1] if res[0] == "num" else str(res)[:60])),
                                    file=fn.file, line=fn.line, fn=fn.path))
            # non-zero divisor: result table
            for b_sign in SIGNS:
                for r_sign in ("-", "0", "+"):
                    a_sign = r_sign if r_sign != "0" else "+"
                    inst = "%s:r%s,b%s" % (tag, r_sign, b_sign)
                    try:
                        res, ev = run_case(F, fn, lty, rty, a_sign, r_sign, b_sign)
                    except OutOfFragment as e:
                        rep.oblige("KERNEL", inst, False)
                        rep.add(Finding("KERNEL", "KERNEL|%s|rule-out-of-fragment" % tag,
                                        "cannot tabulate %s: %s; failing closed" % (tag, e), file=fn.file,
                                        line=fn.line, fn=fn.path))
                        continue
                    got = res[1] if res[0] == "num" else str(res)[:60]
                    want = expected(kind, anyf, r_sign, b_sign)
                    ok = got == want
                    tables.setdefault(tag, {})[(r_sign, b_sign)] = got
                    rep.oblige("KERNEL", inst, ok, sample={"rule": "KERNEL", "helper": tag, "sign_r": r_sign,
                                                           "sign_b": b_sign, "returns": got, "python": want})
                    if not ok:
                        rep.add(Finding("KERNEL", "KERNEL|%s|r%s,b%s" % (tag, r_sign, b_sign),
                                        "%s returns %s when sign(r)=%s, sign(b)=%s; Python's definition gives %s"
                                        % (tag, got, r_sign, b_sign, want), file=fn.file, line=fn.line, fn=fn.path))
    # ---- 2/3 kernels, both copies ------------------------------------------------------------------------
    ktabs = {}
    kernels, kkey = discover_kernels(F, rep)
    for name, (kind, isf) in sorted(kernels.items()):
        fn = F.fn(name)
        if not rep.anchor("KERNEL", name, fn):
            continue
        rep.functions.add(fn.path)
        ty = "f64" if isf else "i64"
        for b_sign in SIGNS:
            for r_sign in ("-", "0", "+"):
                a_sign = r_sign if r_sign != "0" else "+"
                inst = "%s:r%s,b%s" % (name, r_sign, b_sign)
                try:
                    res, ev = run_case(F, fn, ty, ty, a_sign, r_sign, b_sign)
                except OutOfFragment as e:
                    rep.oblige("KERNEL", inst, False)
                    rep.add(Finding("KERNEL", "KERNEL|%s|rule-out-of-fragment" % name,
                                    "cannot tabulate %s: %s; failing closed" % (name, e), file=fn.file, line=fn.line,
                                    fn=fn.path))
                    continue
                got = res[1] if res[0] == "num" else str(res)[:60]
                want = expected(kind, False, r_sign, b_sign)
                ktabs.setdefault(name, {})[(r_sign, b_sign)] = got
                ok = got == want
                rep.oblige("KERNEL", inst, ok, sample={"rule": "KERNEL", "kernel": name, "sign_r": r_sign,
                                                       "sign_b": b_sign, "returns": got, "python": want})
                if not ok:
                    rep.add(Finding("KERNEL", "KERNEL|%s|r%s,b%s" % (name, r_sign, b_sign),
                                    "%s returns %s when sign(r)=%s, sign(b)=%s; Python's definition gives %s"
                                    % (name, got, r_sign, b_sign, want), file=fn.file, line=fn.line, fn=fn.path))
    rep.exhaustive_tables.append({"table": "kernel sign tables", "cells": sum(len(v) for v in ktabs.values())})
    for base, (kind, isf) in (("py_mod_i64_impl", ("mod", False)), ("py_floor_div_i64_impl", ("floordiv", False)),
                              ("py_mod_f64_impl", ("mod", True))):
        a = ktabs.get(kkey.get(("incan_core", kind, isf)))
        b = ktabs.get(kkey.get(("incan_stdlib", kind, isf)))
        ok = a is not None and a == b
        rep.oblige("SIBLING", base, ok, sample={"rule": "SIBLING", "kernel": base, "identical_tables": ok})
        if not ok:
            rep.add(Finding("SIBLING", "SIBLING|%s" % base,
                            "the compile-time core (incan_core::%s) and the runtime copy (incan_stdlib::num::%s) "
                            "produce different correction tables" % (base, base)))
    # ---- error text ---------------------------------------------------------------------------------------
    error_text(F, rep)
    # ---- 4 NOPANIC ----------------------------------------------------------------------------------------
    nopanic(F, rep)
    # ---- 5 SELECT -----------------------------------------------------------------------------------------
    select(F, rep)


def discover_kernels(F, rep):
    """The correction kernels are found by what they ARE, not by their names: two-argument functions of incan_core /
    incan_stdlib::num over (i64, i64) or (f64, f64) whose body contains a native `%` — with a native `/` as well it is
    the floor-division kernel, otherwise the modulo kernel. Renaming them or moving them does not lose them.
    -> ({path: (kind, is_float)}, {(crate, kind, is_float): path})"""
    found = {}
    for p, f in F.fns.items():
        if f.crate not in ("incan_core", "incan_stdlib") or "{" in p.split("::")[-1] or p.startswith("<"):
            continue
        if f.crate == "incan_stdlib" and not p.startswith("incan_stdlib::num::"):
            continue
        if f.argc != 2:
            continue
        tys = {f.local_ty(1), f.local_ty(2), f.local_ty(0)}
        if tys not in ({"i64"}, {"f64"}):
            continue
        ops = {st["rv"]["op"] for b in f.blocks for st in b["st"] if st["s"] == "assign" and st["rv"]["r"] == "bin"}
        for _, t in f.calls():
            last = (callee_generic(t) or "").split("::")[-1]
            if last in ("wrapping_rem", "checked_rem", "overflowing_rem", "rem_euclid"):
                ops.add("Rem")
            if last in ("wrapping_div", "checked_div", "overflowing_div", "div_euclid"):
                ops.add("Div")
        if "Rem" not in ops:
            continue
        kind = "floordiv" if "Div" in ops else "mod"
        found.setdefault((f.crate, kind, tys == {"f64"}), []).append(p)
    kernels, kkey = {}, {}
    for key, paths in found.items():
        if len(paths) == 1:
            kernels[paths[0]] = (key[1], key[2])
            kkey[key] = paths[0]
    for name, (kind, isf) in KERNELS.items():          # the names known on the pinned tree, where still present
        crate = name.split("::")[0]
        if (crate, kind, isf) not in kkey and name in F.fns:
            kernels[name] = (kind, isf)
            kkey[(crate, kind, isf)] = name
    rep.floor("KERNEL", "correction kernels found in incan_core and incan_stdlib::num", len(kernels), 6)
    return kernels, kkey


def error_text(F, rep):
    from engines import all_string_constants
    raise_fn = F.fn("incan_stdlib::errors::raise_zero_division")
    if not rep.anchor("ERRTEXT", "incan_stdlib::errors::raise_zero_division", raise_fn):
        return
    ctor = None
    for bi, t in raise_fn.calls():
        n = callee_name(t) or ""
        if n.split("::")[-1] == "zero_division" and "IncanError" in n:
            ctor = F.fn(n)
    if not rep.anchor("ERRTEXT", "IncanError::zero_division reached from raise_zero_division", ctor):
        return
    strs = [v for _, v in all_string_constants(ctor)]
    kinds = [s["rv"]["variant"] for b in ctor.blocks for s in b["st"]
             if s["s"] == "assign" and s["rv"]["r"] == "agg" and s["rv"].get("adt", "").endswith("ErrorKind")]
    ok = "float division by zero" in strs and kinds == ["ZeroDivisionError"]
    rep.oblige("ERRTEXT", "zero_division", ok, sample={"rule": "ERRTEXT", "kind": kinds, "text": strs})
    if not ok:
        rep.add(Finding("ERRTEXT", "ERRTEXT|zero_division",
                        "IncanError::zero_division builds kind %s with text %s; the documented message is "
                        "`ZeroDivisionError: float division by zero`" % (kinds, strs), file=ctor.file, line=ctor.line,
                        fn=ctor.path))
    # the kind's display name
    for p, f in F.fns.items():
        if p.endswith("ErrorKind::as_str") or (p.startswith("<incan_core::errors::ErrorKind as") and
                                               p.endswith("Display>::fmt")):
            from engines import enum_table, str_consts
            _, tab = enum_table(f, "incan_core::errors::ErrorKind")
            if tab and "ZeroDivisionError" in tab:
                s = str_consts(tab["ZeroDivisionError"][0])
                ok = s == ["ZeroDivisionError"]
                rep.oblige("ERRTEXT", "ErrorKind-name:" + p.split("::")[-1], ok,
                           sample={"rule": "ERRTEXT", "fn": p, "ZeroDivisionError_prints": s})
                if not ok:
                    rep.add(Finding("ERRTEXT", "ERRTEXT|ErrorKind-name",
                                    "ErrorKind::ZeroDivisionError is rendered as %s" % s, file=f.file, line=f.line,
                                    fn=p))


def nopanic(F, rep):
    entries = [n for n in WRAPPERS if n in F.fns]
    # trait impls the generic wrappers dispatch to
    impls = [p for p in F.fns if p.startswith("<") and ("incan_stdlib::num::PyModImpl" in p or
                                                        "incan_stdlib::num::PyFloorDivImpl" in p or
                                                        "incan_stdlib::num::sealed::" in p)]
    clo = F.closure(entries + impls, pred=lambda p: F.fns[p].crate in ("incan_stdlib", "incan_core"),
                    stop=["incan_stdlib::errors::raise_zero_division"])
    rep.functions.update(clo)
    n = 0
    for p in sorted(clo):
        f = F.fns[p]
        per = {}
        for bi, b in enumerate(f.blocks):
            t = b["term"]
            exp = t.get("exp") or []
            if "debug_assert" in exp or "debug_assert_eq" in exp or "debug_assert_ne" in exp:
                continue
            kind = None
            if t["t"] == "assert":
                kind = "assert:" + t["msg"]
            elif t["t"] == "call":
                cn = callee_name(t) or ""
                if cn.endswith("raise_zero_division"):
                    continue
                if cn.startswith("core::panicking::") or cn.endswith("::unwrap") or cn.endswith("::expect") \
                        or cn.startswith("std::rt::begin_panic") or "panic" in cn.split("::")[-1]:
                    kind = "call:" + cn.split("::")[-1]
            if kind is None:
                continue
            n += 1
            per[kind] = per.get(kind, 0) + 1
            inst = "%s|%s#%d" % (p.split("::")[-1], kind, per[kind])
            admitted = kind in ("assert:div_zero", "assert:rem_zero", "assert:overflow:Div", "assert:overflow:Rem")
            rep.oblige("NOPANIC", inst, admitted, sample={"rule": "NOPANIC", "site": inst, "file": f.file,
                                                          "line": t.get("ln"), "admitted": admitted})
            if admitted:
                rep.exempt("NOPANIC", inst, "division assert: the zero case is excluded by the dominating zero test "
                                            "(ZERODIV rule), the overflow case is i64::MIN / -1, excluded by the "
                                            "property")
            else:
                rep.add(Finding("NOPANIC", "NOPANIC|%s" % inst,
                                "panic site (%s) reachable from the arithmetic helpers: some operand pair stops the "
                                "program with something other than ZeroDivisionError" % kind, file=f.file,
                                line=t.get("ln"), fn=p))
    rep.floor("NOPANIC", "functions in the arithmetic helpers' closure", len(clo), 15)


def select(F, rep):
    import c07
    from harness import Report
    sub = Report("C04-select")
    c07.binop_plan_table(F, sub)
    bad = [f for f in sub.findings if ":helper" in f.key or "rule-out-of-fragment" in f.key]
    n = len([1 for (r, i) in sub.nontrivial if ":helper" in i])
    rep.floor("SELECT", "helper-selection cells of determine_binop_plan", n, 24)
    rep.obligations += n
    rep.evaluations += n
    rep.discharged += n - len(bad)
    for (r, i) in sub.nontrivial:
        if ":helper" in i:
            rep.nontrivial.add(("SELECT", i))
    rep.samples += [s for s in sub.samples if ":helper" in str(s.get("cell", ""))][:4]
    for f in bad:
        f.rule = "SELECT"
        f.key = "SELECT|" + f.key.split("|", 1)[1]
        rep.add(f)
