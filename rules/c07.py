"""C07 — numeric result types follow the documented table in every phase (DESIGN.md §4 C07).

The space operator x operand kind x exponent kind is finite, so every table below is enumerated COMPLETELY by
path-sensitive constant propagation over the function's MIR (rules/mireval.py) and compared with the oracle
transcribed from language/reference/numeric_semantics.md.
"""
from engines import AST, IR, body_and_closures, callee_name, discr_switches, enum_table, op_place, short
from harness import Finding
from mireval import (Evaluator, OutOfFragment, UNKNOWN, boolean, enum, integer, opt_none, opt_some)

EXPLANATION = (
    "Exhaustive decision-table extraction: each policy/adapter/phase function is evaluated by path-sensitive "
    "constant propagation over its MIR for EVERY combination of operator x operand kind x exponent kind (finite "
    "enum domain; no program is run) and the resulting table is compared with the oracle transcribed from the "
    "numeric-semantics reference: `/` always float; `+ - * // %` float iff an operand is float; `**` int only for "
    "int ** non-negative int literal; comparisons bool and mixable. Tables: result_numeric_type (260 cells), "
    "needs_float_promotion, PowExponentKind::from_literal_info, the AST/IR adapters and their commutation with "
    "lower_binop, the checker's check_binary, lowering's binary_result_type, the emitter's determine_binop_plan "
    "(result type, casts, helper selection, pow kind), types_compatible on the numeric cells, the runtime trait "
    "impls' Output types. Plus: every phase reaches result_numeric_type (single policy), and the compound-assignment "
    "arm cannot bypass the policy.")

NT = "incan_core::NumericTy"
NO = "incan_core::NumericOp"
PK = "incan_core::PowExponentKind"
RT = "incan::frontend::symbols::ResolvedType"
IRT = IR + "types::IrType"
BINOP = IR + "expr::BinOp"

ARITH = ("Add", "Sub", "Mul", "Div", "FloorDiv", "Mod", "Pow")
CMP_NUMOP = ("Eq", "NotEq", "Lt", "LtEq", "Gt", "GtEq")


def oracle(op, l, r, pk):
    """numeric_semantics.md, transcribed. -> 'Int' | 'Float' (for comparisons: the operand coercion kind)."""
    if op == "Div":
        return "Float"
    if op in ("Add", "Sub", "Mul", "FloorDiv", "Mod"):
        return "Float" if "Float" in (l, r) else "Int"
    if op == "Pow":
        if l == "Int" and r == "Int" and pk == "NonNegativeIntLiteral":
            return "Int"
        return "Float"
    return "Float" if "Float" in (l, r) else "Int"


def variants(F, adt):
    return [v["name"] for v in F.adts[adt]["variants"]]


def vname(v):
    return v[2] if isinstance(v, tuple) and v and v[0] == "enum" else repr(v)


class Cells:
    def __init__(self, rep, rule, table, f):
        self.rep, self.rule, self.table, self.f = rep, rule, table, f
        self.n = 0
        self.bad = 0

    def cell(self, key, got, want, note=""):
        self.n += 1
        ok = got == want
        inst = "%s[%s]" % (self.table, key)
        self.rep.oblige(self.rule, inst, ok, sample={"rule": self.rule, "table": self.table, "cell": key,
                                                     "value": got, "oracle": want})
        if not ok:
            self.bad += 1
            self.rep.add(Finding(self.rule, "%s|%s|%s" % (self.rule, self.table, key),
                                 "%s(%s) = %s but the numeric-semantics reference requires %s%s"
                                 % (self.table, key, got, want, (" — " + note) if note else ""),
                                 file=self.f.file if self.f else None, line=self.f.line if self.f else None,
                                 fn=self.f.path if self.f else None))

    def out_of_fragment(self, key, e):
        self.n += 1
        self.rep.oblige(self.rule, "%s[%s]" % (self.table, key), False)
        self.rep.add(Finding(self.rule, "%s|%s|rule-out-of-fragment" % (self.rule, self.table),
                             "cannot tabulate %s: %s — the function left the analysable fragment; failing closed"
                             % (self.table, e), file=self.f.file if self.f else None,
                             line=self.f.line if self.f else None, fn=self.f.path if self.f else None))

    def done(self, floor):
        self.rep.floor(self.rule, "cells of " + self.table, self.n, floor)
        self.rep.exhaustive_tables.append({"table": self.table, "cells": self.n, "mismatches": self.bad})


def run(facts, rep, tier):
    F = facts["default"]
    from engines import eqop
    eqop(F, rep, ('crates/incan_core/src/lib.rs', 'src/numeric_adapters.rs', 'src/frontend/typechecker/check_expr/ops.rs', 'src/frontend/typechecker/check_stmt.rs', 'src/frontend/typechecker/const_eval.rs', 'src/backend/ir/lower/expr.rs', 'src/backend/ir/lower/types.rs', 'src/backend/ir/conversions.rs'))
    rep.assumptions += [
        "oracle = language/reference/numeric_semantics.md as transcribed in rules/c07.py::oracle",
        "derived PartialEq on field-less enums compares discriminants; Clone copies",
        "rustc nightly MIR describes the program the stable toolchain builds",
    ]
    for a in (NT, NO, PK, RT, IRT, BINOP):
        if not rep.anchor("TABLE", "ADT " + a, F.adts.get(a)):
            return
    ops = variants(F, NO)
    pks = variants(F, PK)
    ev = Evaluator(F)

    # ---- T1 result_numeric_type ------------------------------------------------------------------------------
    f = F.fn("incan_core::result_numeric_type")
    policy = {}
    if rep.anchor("TABLE", "incan_core::result_numeric_type", f):
        rep.functions.add(f.path)
        c = Cells(rep, "TABLE", "result_numeric_type", f)
        for op in ops:
            for l in ("Int", "Float"):
                for r in ("Int", "Float"):
                    for pk in [None] + pks:
                        key = "%s,%s,%s,%s" % (op, l, r, pk)
                        try:
                            res = ev.run(f, [enum(NO, op), enum(NT, l), enum(NT, r),
                                             opt_none() if pk is None else opt_some(enum(PK, pk))])
                        except OutOfFragment as e:
                            c.out_of_fragment(key, e)
                            continue
                        policy[(op, l, r, pk)] = vname(res)
                        c.cell(key, vname(res), oracle(op, l, r, pk))
        c.done(260)
    # ---- T2 needs_float_promotion ----------------------------------------------------------------------------
    g = F.fn("incan_core::needs_float_promotion")
    if rep.anchor("TABLE", "incan_core::needs_float_promotion", g):
        rep.functions.add(g.path)
        c = Cells(rep, "TABLE", "needs_float_promotion", g)
        for op in ops:
            for l in ("Int", "Float"):
                for r in ("Int", "Float"):
                    for pk in [None] + pks:
                        key = "%s,%s,%s,%s" % (op, l, r, pk)
                        try:
                            res = ev.run(g, [enum(NO, op), enum(NT, l), enum(NT, r),
                                             opt_none() if pk is None else opt_some(enum(PK, pk))])
                        except OutOfFragment as e:
                            c.out_of_fragment(key, e)
                            continue
                        fl = oracle(op, l, r, pk) == "Float"
                        want = (fl and l == "Int", fl and r == "Int")
                        got = tuple(x[1] for x in res[1]) if res[0] == "tuple" else res
                        c.cell(key, got, want)
        c.done(260)
    # ---- T3 from_literal_info --------------------------------------------------------------------------------
    h = F.fn("incan_core::PowExponentKind::from_literal_info")
    if rep.anchor("TABLE", "PowExponentKind::from_literal_info", h):
        rep.functions.add(h.path)
        c = Cells(rep, "TABLE", "from_literal_info", h)
        reps = [("None", opt_none()), ("Some(<0)", opt_some(integer(-1))), ("Some(<0,min)", opt_some(integer(-2**63))),
                ("Some(0)", opt_some(integer(0))), ("Some(>0)", opt_some(integer(1))),
                ("Some(>0,max)", opt_some(integer(2**63 - 1)))]
        for isf in (True, False):
            for name, o in reps:
                try:
                    res = ev.run(h, [boolean(isf), o])
                except OutOfFragment as e:
                    c.out_of_fragment("%s,%s" % (isf, name), e)
                    continue
                if isf:
                    want = "Float"
                elif name == "None":
                    want = "Variable"
                elif "<0" in name:
                    want = "NegativeIntLiteral"
                else:
                    want = "NonNegativeIntLiteral"
                c.cell("%s,%s" % (isf, name), vname(res), want)
        c.done(12)
    # ---- T4 adapters -----------------------------------------------------------------------------------------
    adapters(F, rep, ev)
    # ---- T5 binary_result_type (lowering) --------------------------------------------------------------------
    brt = F.one_fn("binary_result_type")
    if rep.anchor("TABLE", "AstLowering::binary_result_type", brt):
        rep.functions.add(brt.path)
        c = Cells(rep, "TABLE", "binary_result_type", brt)
        ast_ops = variants(F, AST + "BinaryOp")
        a2n = ast_to_numop(F, ev)
        for op in ast_ops:
            for l in ("Int", "Float"):
                for r in ("Int", "Float"):
                    for pk in [None] + pks:
                        key = "%s,%s,%s,%s" % (op, l, r, pk)
                        try:
                            res = ev.run(brt, [UNKNOWN, enum(IRT, l), enum(IRT, r), enum(AST + "BinaryOp", op),
                                               opt_none() if pk is None else opt_some(enum(PK, pk))])
                        except OutOfFragment as e:
                            c.out_of_fragment(key, e)
                            continue
                        nop = a2n.get(op)
                        if op in ARITH:
                            want = oracle(nop, l, r, pk)
                        else:
                            want = "Bool"
                        c.cell(key, vname(res), want)
        c.done(18 * 4 * 5)
    # ---- T6 check_binary (checker) ---------------------------------------------------------------------------
    check_binary_table(F, rep, pks)
    # ---- T7 determine_binop_plan (emitter) -------------------------------------------------------------------
    binop_plan_table(F, rep)
    # ---- T8 single policy ------------------------------------------------------------------------------------
    single_policy(F, rep)
    # ---- T9 compound assignment cannot bypass the policy -----------------------------------------------------
    compound_no_bypass(F, rep)
    exponent_classifiers(F, rep)
    exponent_shape(F, rep)
    const_first(F, rep)
    from c01 import compound_tables
    compound_tables(F, rep, "COMPOUND")
    # ---- T10 runtime trait impl outputs -----------------------------------------------------------------------
    runtime_outputs(F, rep)
    # ---- T11 types_compatible numeric cells -------------------------------------------------------------------
    tc = F.one_fn("TypeChecker::types_compatible")
    if rep.anchor("TABLE", "TypeChecker::types_compatible", tc):
        rep.functions.add(tc.path)
        c = Cells(rep, "TABLE", "types_compatible", tc)
        for a in ("Int", "Float", "Bool", "Str"):
            for b in ("Int", "Float", "Bool", "Str"):
                try:
                    res = Evaluator(F, call_hook=tc_hook).run(tc, [UNKNOWN, ("ref", {0: enum(RT, a)}, {"l": 0, "p": []}),
                                                                 ("ref", {0: enum(RT, b)}, {"l": 0, "p": []})])
                except OutOfFragment as e:
                    c.out_of_fragment("%s->%s" % (a, b), e)
                    continue
                got = res[1] if res[0] == "bool" else res
                c.cell("%s->%s" % (a, b), got, a == b,
                       note="an accepted annotated binding would change numeric kind" if a != b else "")
        c.done(16)


def tc_hook(name, gen, args, t, ev):
    return None


def ast_to_numop(F, ev):
    f = F.one_fn("numeric_adapters::numeric_op_from_ast")
    out = {}
    if f is None:
        return out
    for op in variants(F, AST + "BinaryOp"):
        try:
            res = ev.run(f, [("ref", {0: enum(AST + "BinaryOp", op)}, {"l": 0, "p": []})])
        except OutOfFragment:
            continue
        if res[0] == "enum" and res[2] == "Some":
            out[op] = res[3][0][2]
    return out


def adapters(F, rep, ev):
    def ref(v):
        return ("ref", {0: v}, {"l": 0, "p": []})
    want_ast = {"Add": "Add", "Sub": "Sub", "Mul": "Mul", "Div": "Div", "FloorDiv": "FloorDiv", "Mod": "Mod",
                "Pow": "Pow", "Eq": "Eq", "NotEq": "NotEq", "Lt": "Lt", "Gt": "Gt", "LtEq": "LtEq", "GtEq": "GtEq"}
    want_ir = {"Add": "Add", "Sub": "Sub", "Mul": "Mul", "Div": "Div", "FloorDiv": "FloorDiv", "Mod": "Mod",
               "Pow": "Pow", "Eq": "Eq", "Ne": "NotEq", "Lt": "Lt", "Gt": "Gt", "Le": "LtEq", "Ge": "GtEq"}
    tabs = {}
    for (suffix, adt, want) in (("numeric_adapters::numeric_op_from_ast", AST + "BinaryOp", want_ast),
                                ("numeric_adapters::numeric_op_from_ir", BINOP, want_ir)):
        f = F.one_fn(suffix)
        if not rep.anchor("TABLE", suffix, f):
            continue
        rep.functions.add(f.path)
        c = Cells(rep, "TABLE", suffix.split("::")[-1], f)
        tab = {}
        for v in variants(F, adt):
            try:
                res = ev.run(f, [ref(enum(adt, v))])
            except OutOfFragment as e:
                c.out_of_fragment(v, e)
                continue
            got = res[3][0][2] if res[0] == "enum" and res[2] == "Some" else None
            tab[v] = got
            c.cell(v, got, want.get(v))
        tabs[suffix] = tab
        c.done(len(F.adts[adt]["variants"]))
    for (suffix, adt) in (("numeric_adapters::numeric_ty_from_resolved", RT),
                          ("numeric_adapters::ir_type_to_numeric_ty", IRT)):
        f = F.one_fn(suffix)
        if not rep.anchor("TABLE", suffix, f):
            continue
        rep.functions.add(f.path)
        c = Cells(rep, "TABLE", suffix.split("::")[-1], f)
        for v in F.adts[adt]["variants"]:
            fields = [UNKNOWN] * len(v["fields"])
            try:
                res = ev.run(f, [ref(enum(adt, v["name"], fields))])
            except OutOfFragment as e:
                c.out_of_fragment(v["name"], e)
                continue
            got = res[3][0][2] if res[0] == "enum" and res[2] == "Some" else None
            want = v["name"] if v["name"] in ("Int", "Float") else None
            c.cell(v["name"], got, want)
        c.done(len(F.adts[adt]["variants"]))
    # commutation: numeric_op_from_ir(lower_binop(op)) == numeric_op_from_ast(op) for arithmetic/comparison ops
    lb = F.one_fn("lower_binop")
    if rep.anchor("TABLE", "AstLowering::lower_binop", lb):
        rep.functions.add(lb.path)
        _, tab = enum_table(lb, AST + "BinaryOp")
        c = Cells(rep, "TABLE", "lower_binop∘numeric_op_from_ir", lb)
        t_ast = tabs.get("numeric_adapters::numeric_op_from_ast", {})
        t_ir = tabs.get("numeric_adapters::numeric_op_from_ir", {})
        for v in variants(F, AST + "BinaryOp"):
            aggs = [x for x in (tab or {}).get(v, ([], [], []))[1] if x[0] == BINOP]
            irv = aggs[0][1] if len(aggs) == 1 else None
            if t_ast.get(v) is None:
                continue
            c.cell(v, t_ir.get(irv), t_ast.get(v), note="lowering maps the operator to a different numeric op")
        c.done(13)


class Tok:
    """mutable token-stream value for quote! bodies"""
    pass


def quote_hook(name, gen, args, t, ev):
    if gen.endswith("TokenStream::new") or name.endswith("TokenStream::new"):
        return ("tokens", [])
    if "quote::__private::push_" in gen:
        what = gen.split("push_")[-1]
        tgt = ev.deref_all(args[0])
        if tgt[0] == "tokens":
            a1 = ev.deref_all(args[1]) if len(args) > 1 else None
            if what.startswith("ident") and a1 is not None and a1[0] == "str":
                tgt[1].append(a1[1].strip('"'))
            else:
                tgt[1].append(what)
        return ("tuple", ())
    if gen.endswith("ToTokens::to_tokens"):
        return ("tuple", ())
    return None


def binop_plan_table(F, rep):
    f = F.one_fn("conversions::determine_binop_plan")
    if not rep.anchor("TABLE", "conversions::determine_binop_plan", f):
        return
    rep.functions.add(f.path)
    c = Cells(rep, "TABLE", "determine_binop_plan", f)
    KIND = IR + "expr::IrExprKind"
    UN = IR + "expr::UnaryOp"
    TE = IR + "expr::TypedExpr"

    def texpr(kind, ty):
        return ("struct", TE, {"kind": kind, "ty": enum(IRT, ty), "ownership": UNKNOWN, "span": UNKNOWN})

    def boxed(v):
        return ("box", v)
    exps = {
        "NonNegativeIntLiteral": texpr(enum(KIND, "Int", [integer(2)]), "Int"),
        "NegativeIntLiteral": texpr(enum(KIND, "UnaryOp", [enum(UN, "Neg"), boxed(texpr(enum(KIND, "Int", [integer(2)]),
                                                                                         "Int"))]), "Int"),
        "Variable": texpr(enum(KIND, "Var", [UNKNOWN, UNKNOWN]), "Int"),
        "Float": texpr(enum(KIND, "Float", [UNKNOWN]), "Float"),
    }
    ir2n = {"Add": "Add", "Sub": "Sub", "Mul": "Mul", "Div": "Div", "FloorDiv": "FloorDiv", "Mod": "Mod",
            "Pow": "Pow", "Eq": "Eq", "Ne": "NotEq", "Lt": "Lt", "Gt": "Gt", "Le": "LtEq", "Ge": "GtEq"}
    for op in [v["name"] for v in F.adts[BINOP]["variants"]]:
        if op not in ir2n:
            continue
        for l in ("Int", "Float"):
            for ek, rexpr in exps.items():
                r = "Float" if ek == "Float" else "Int"
                left = texpr(enum(KIND, "Var", [UNKNOWN, UNKNOWN]), l)
                key = "%s,%s,%s:%s" % (op, l, r, ek)
                ev = Evaluator(F, call_hook=quote_hook)
                try:
                    res = ev.run(f, [("ref", {0: enum(BINOP, op)}, {"l": 0, "p": []}),
                                     ("ref", {0: left}, {"l": 0, "p": []}), ("ref", {0: rexpr}, {"l": 0, "p": []})])
                except OutOfFragment as e:
                    c.out_of_fragment(key, e)
                    continue
                if res[0] != "struct":
                    c.out_of_fragment(key, "plan is not a struct value: %r" % (res,))
                    continue
                plan = res[2]
                nop = ir2n[op]
                pk = ek if nop == "Pow" else None
                want_ty = oracle(nop, l, r, pk)
                is_cmp = nop in CMP_NUMOP
                got_ty = vname(plan.get("result_ty"))
                fl = want_ty == "Float"
                want_conv = ("ToFloat" if fl and l == "Int" else "None", "ToFloat" if fl and r == "Int" else "None")
                got_conv = (vname(plan.get("lhs_conv")), vname(plan.get("rhs_conv")))
                if is_cmp:
                    # result is bool at run time; the plan records the coercion kind — casts are what matter
                    c.cell(key + ":casts", got_conv, want_conv)
                else:
                    c.cell(key + ":type", got_ty, want_ty)
                    c.cell(key + ":casts", got_conv, want_conv)
                emit = plan.get("emit")
                if emit and emit[0] == "enum":
                    ekind = emit[2]
                    payload = emit[3][0] if emit[3] else None
                    if nop in ("Mod", "FloorDiv", "Div"):
                        path = "::".join(x for x in (payload[1] if payload and payload[0] == "tokens" else [])
                                         if x != "colon2")
                        base = {"Mod": "py_mod", "FloorDiv": "py_floor_div", "Div": "py_div"}[nop]
                        if nop == "Div":
                            want_path = "incan_stdlib::num::py_div"
                        else:
                            want_path = "incan_stdlib::num::%s_%s" % (base, "i64" if want_ty == "Int" else "f64")
                        c.cell(key + ":helper", (ekind, path), ("StdlibCall", want_path),
                               note="helper suffix must agree with the result type")
                    elif nop == "Pow":
                        c.cell(key + ":pow", (ekind, payload[1] if payload and payload[0] == "bool" else payload),
                               ("Pow", want_ty == "Int"))
                    else:
                        c.cell(key + ":emit", ekind, "Infix")
    # operands whose type the IR does not know (lambda parameters, interop values): `%`, `//`, `/` must still go
    # through the Python-semantics helpers, never through Rust's infix operators
    for op, fam in (("Mod", "py_mod"), ("FloorDiv", "py_floor_div"), ("Div", "py_div")):
        for (lt, rt) in (("Unknown", "Int"), ("Int", "Unknown"), ("Unknown", "Unknown"), ("Unknown", "Float")):
            left = texpr(enum(KIND, "Var", [UNKNOWN, UNKNOWN]), lt)
            right = texpr(enum(KIND, "Var", [UNKNOWN, UNKNOWN]), rt)
            key = "%s,%s,%s:untyped" % (op, lt, rt)
            ev = Evaluator(F, call_hook=quote_hook)
            try:
                res = ev.run(f, [("ref", {0: enum(BINOP, op)}, {"l": 0, "p": []}),
                                 ("ref", {0: left}, {"l": 0, "p": []}), ("ref", {0: right}, {"l": 0, "p": []})])
            except OutOfFragment as e:
                c.out_of_fragment(key, e)
                continue
            emit = res[2].get("emit") if res[0] == "struct" else None
            ekind = emit[2] if emit and emit[0] == "enum" else None
            payload = emit[3][0] if emit and emit[0] == "enum" and emit[3] else None
            path = "::".join(x for x in (payload[1] if payload and payload[0] == "tokens" else []) if x != "colon2")
            c.cell(key + ":helper", (ekind, path.startswith("incan_stdlib::num::" + fam)), ("StdlibCall", True),
                   note="untyped operands would get Rust truncation / remainder-of-dividend and a Rust division "
                        "panic instead of ZeroDivisionError")
    c.done(13 * 2 * 4 * 2)


def check_binary_table(F, rep, pks):
    f = F.one_fn("check_binary")
    if not rep.anchor("TABLE", "TypeChecker::check_binary", f):
        return
    rep.functions.add(f.path)
    c = Cells(rep, "TABLE", "check_binary", f)
    ops = ARITH + ("Eq", "NotEq", "Lt", "Gt", "LtEq", "GtEq")
    for op in ops:
        for l in ("Int", "Float"):
            for r in ("Int", "Float"):
                for pk in (pks if op == "Pow" else [None]):
                    if op == "Pow" and ((pk == "Float") != (r == "Float")):
                        continue  # exponent kind Float <=> exponent type float (from_literal_info table)
                    queue = [enum(RT, l), enum(RT, r)]
                    errors = []

                    def hook(name, gen, args, t, ev, queue=queue, errors=errors, pk=pk):
                        if name.endswith("TypeChecker>::check_expr") or name.endswith("::check_expr"):
                            return queue.pop(0) if queue else UNKNOWN
                        if name.endswith("pow_exponent_kind_from_ast"):
                            return enum(PK, pk)
                        if name.endswith("Vec<T, A>::push") or gen.endswith("::push"):
                            errors.append(name)
                            return ("tuple", ())
                        if gen.endswith("::expect") or gen.endswith("::unwrap"):
                            a = args[0]
                            if a[0] == "enum" and a[2] in ("Some", "Ok"):
                                return a[3][0]
                        return None
                    ev = Evaluator(F, call_hook=hook)
                    key = "%s,%s,%s,%s" % (op, l, r, pk)
                    try:
                        res = ev.run(f, [UNKNOWN, UNKNOWN, enum(AST + "BinaryOp", op), UNKNOWN, UNKNOWN])
                    except OutOfFragment as e:
                        c.out_of_fragment(key, e)
                        continue
                    want = oracle(op, l, r, pk) if op in ARITH else "Bool"
                    c.cell(key, (vname(res), len(errors)), (want, 0))
    c.done(7 * 4 + 6 * 4)


def single_policy(F, rep):
    phases = [
        ("checker: check_binary", "check_binary"),
        ("checker: compound assignment (check_statement)", "check_statement"),
        ("lowering: binary_result_type", "binary_result_type"),
        ("emitter: determine_binop_plan", "conversions::determine_binop_plan"),
        ("const evaluator: eval_const_expr", "eval_const_expr"),
    ]
    n = 0
    for what, suf in phases:
        f = F.one_fn(suf)
        if not rep.anchor("SINGLEPOLICY", suf, f):
            continue
        own = body_and_closures(F, f.path)
        # const evaluator delegates numeric typing to helpers: follow one level inside const_eval.rs
        reach = set(own)
        for p in own:
            for bi, t in F.fns[p].calls():
                n2 = callee_name(t)
                if n2 and n2 in F.fns and F.fns[n2].file == f.file:
                    reach.update(body_and_closures(F, n2))
        calls = [callee_name(t) for p in reach for _, t in F.fns[p].calls()]
        ok = any(c and (c.endswith("incan_core::result_numeric_type") or c.endswith("needs_float_promotion"))
                 for c in calls)
        n += 1 if ok else 0
        rep.oblige("SINGLEPOLICY", what, ok, sample={"rule": "SINGLEPOLICY", "phase": what, "fn": f.path,
                                                     "reaches_policy": ok})
        if not ok:
            rep.add(Finding("SINGLEPOLICY", "SINGLEPOLICY|%s" % suf,
                            "%s no longer obtains the numeric result kind from incan_core::result_numeric_type: a "
                            "private table can drift from the documented policy" % what,
                            file=f.file, line=f.line, fn=f.path))
    rep.floor("SINGLEPOLICY", "phases consulting result_numeric_type", n, 5)


def compound_no_bypass(F, rep):
    """In the CompoundAssignment arm of check_statement, once the value has been checked, every path to the end
    of the arm passes the numeric classification of both operands (no early acceptance)."""
    from engines import arm_regions, primary_dispatch, postdominators
    f = F.one_fn("check_statement")
    if not rep.anchor("NOBYPASS", "check_statement", f):
        return
    sw = primary_dispatch(f, AST + "Statement")
    regs = arm_regions(f, sw) if sw else {}
    arm = regs.get("CompoundAssignment")
    if not rep.anchor("NOBYPASS", "CompoundAssignment arm", arm):
        return
    chk = [b for b in arm if f.term(b)["t"] == "call" and (callee_name(f.term(b)) or "").endswith("::check_expr")]
    cls = [b for b in arm if f.term(b)["t"] == "call"
           and (callee_name(f.term(b)) or "").endswith("numeric_ty_from_resolved")]
    pol = [b for b in arm if f.term(b)["t"] == "call"
           and (callee_name(f.term(b)) or "").endswith("result_numeric_type")]
    rep.floor("NOBYPASS", "check_expr / classification / policy calls in the compound arm",
              min(len(chk), 1) + min(len(cls), 2) + min(len(pol), 1), 4)
    if not chk or len(cls) < 2:
        return
    pdom = postdominators(f)
    start = chk[0]
    # every classification call post-dominates the value check (within normal flow)
    ok = all(b in pdom.get(start, set()) for b in cls)
    rep.oblige("NOBYPASS", "compound:classification-postdominates-check", ok,
               sample={"rule": "NOBYPASS", "check_expr_block": start, "classification_blocks": cls,
                       "policy_blocks": pol, "holds": ok})
    if not ok:
        rep.add(Finding("NOBYPASS", "NOBYPASS|check_statement|CompoundAssignment",
                        "in the compound-assignment arm a path leads from the value check to the end of the arm "
                        "without classifying both operands numerically: `x <op>= y` can be accepted without "
                        "consulting the numeric policy (e.g. int /= int)", file=f.file, line=sw["ln"], fn=f.path))
    # no path from the classification to the end of the arm avoids BOTH the policy call and the
    # "not both numeric" edges of the match on the classification results
    from engines import derived_locals
    cls_dests = set()
    for b in cls:
        t = f.term(b)
        if not t["d"]["p"]:
            cls_dests |= derived_locals(f, t["d"]["l"])
    tuples = set()
    for b in arm:
        for s in f.stmts(b):
            if s["s"] == "assign" and s["rv"]["r"] == "agg" and s["rv"].get("ak") == "tuple" and not s["d"]["p"]:
                if any(op_place(o) is not None and op_place(o)["l"] in cls_dests for o in s["rv"]["ops"]):
                    tuples |= derived_locals(f, s["d"]["l"])
    none_edges = set()
    n_sw = 0
    for s in discr_switches(f):
        if s["block"] not in arm or not s["adt"].endswith("option::Option"):
            continue
        if s["place"]["l"] not in (cls_dests | tuples):
            continue
        n_sw += 1
        if "None" in s["explicit"]:
            none_edges.add((s["block"], s["explicit"]["None"]))
        if "Some" in s["explicit"] and s["otherwise_live"]:
            none_edges.add((s["block"], s["otherwise"]))
    rep.floor("NOBYPASS", "matches on the numeric classification in the compound arm", n_sw, 2)
    none_targets = {b for _, b in none_edges}
    last_cls = max(cls)
    # reachability with the policy call blocked and the "an operand is not numeric" EDGES cut (edges, not blocks: the
    # fallback block may also be entered from a guard such as `if lhs != rhs`, and that entry is a bypass)
    reach, todo = set(), list(f.succs()[last_cls])
    polset = set(pol)
    while todo:
        b = todo.pop()
        if b in reach or b in polset:
            continue
        reach.add(b)
        for s2 in f.succs()[b]:
            if (b, s2) not in none_edges:
                todo.append(s2)
    escaped = sorted(b for b in reach if b not in arm)
    ok2 = not escaped and bool(pol)
    rep.oblige("NOBYPASS", "compound:no-path-around-policy", ok2,
               sample={"rule": "NOBYPASS", "policy_blocks": pol, "non_numeric_edges": sorted(none_targets),
                       "escapes": escaped[:3]})
    if not ok2:
        rep.add(Finding("NOBYPASS", "NOBYPASS|check_statement|policy-bypass",
                        "after classifying both operands of `x <op>= y` as numeric, a path reaches the end of the "
                        "compound-assignment arm without calling result_numeric_type: the statement can be accepted "
                        "without consulting the numeric policy (`k: int; k /= 2` would type-check although "
                        "`k = k / 2` is rejected)", file=f.file, line=sw["ln"], fn=f.path))


EXP_CLASSIFIERS = {
    # the only functions that may turn an exponent into a PowExponentKind, each from the SYNTACTIC shape of the
    # exponent expression (int literal, negated int literal, anything else); their accepted shapes are compared by the
    # sibling tables above
    "incan::numeric_adapters::pow_exponent_kind_from_ast": "shared adapter, AST exponent",
    "incan::numeric_adapters::pow_exponent_kind_from_ir": "shared adapter, IR exponent",
    "incan::backend::ir::lower::expr::<impl incan::backend::ir::lower::AstLowering>::pow_exponent_kind":
        "lowering's copy over the AST exponent (same literal shapes; sibling-checked)",
}
EXP_PHASES = ("check_binary", "eval_const_expr", "determine_binop_plan", "lower_expr")


def exponent_classifiers(F, rep):
    """EXPKIND — every phase classifies the `**` exponent through one of the syntactic classifiers; nobody else calls
    PowExponentKind::from_literal_info or builds a PowExponentKind by hand (a phase that classifies the exponent by a
    rule of its own — e.g. from a folded constant value — types `a ** N` differently from the other phases)."""
    target = "incan_core::PowExponentKind::from_literal_info"
    if not rep.anchor("EXPKIND", target, F.fns.get(target)):
        return
    n = 0
    for p, f in sorted(F.fns.items()):
        if f.crate not in ("incan", "incan_core"):
            continue
        for bi, t in f.calls():
            if (callee_name(t) or "") != target:
                continue
            n += 1
            ok = p in EXP_CLASSIFIERS
            inst = "%s|from_literal_info" % p.split("::")[-1]
            rep.oblige("EXPKIND", inst, ok, sample={"rule": "EXPKIND", "caller": p, "line": t.get("ln"), "allowed": ok})
            if not ok:
                rep.add(Finding("EXPKIND", "EXPKIND|%s" % inst,
                                "%s classifies a `**` exponent by calling PowExponentKind::from_literal_info itself "
                                "instead of one of the shared syntactic classifiers: this phase can give `a ** e` a "
                                "different exponent kind (and result type) than the other phases" % p,
                                file=f.file, line=t.get("ln"), fn=p))
        if p != target:
            for b in f.blocks:
                for st in b["st"]:
                    if st["s"] == "assign" and st["rv"]["r"] == "agg" and \
                            (st["rv"].get("adt") or "").endswith("PowExponentKind") and p not in EXP_CLASSIFIERS:
                        inst = "%s|builds:%s" % (p.split("::")[-1], st["rv"].get("variant"))
                        rep.oblige("EXPKIND", inst, False)
                        rep.add(Finding("EXPKIND", "EXPKIND|%s" % inst,
                                        "%s constructs PowExponentKind::%s directly, outside the shared classifiers"
                                        % (p, st["rv"].get("variant")), file=f.file, line=st.get("ln"), fn=p))
    rep.floor("EXPKIND", "callers of PowExponentKind::from_literal_info", n, 3)
    for suf in EXP_PHASES:
        f = F.one_fn(suf)
        if not rep.anchor("EXPKIND", suf, f):
            continue
        own = body_and_closures(F, f.path)
        used = sorted({callee_name(t) for q in own for _, t in F.fns[q].calls() if (callee_name(t) or "") in EXP_CLASSIFIERS})
        ok = bool(used)
        rep.oblige("EXPKIND", "%s:uses-classifier" % suf, ok,
                   sample={"rule": "EXPKIND", "phase": f.path, "classifier": used})
        if not ok:
            rep.add(Finding("EXPKIND", "EXPKIND|%s|no-classifier" % suf,
                            "%s no longer classifies the `**` exponent through a shared classifier" % suf,
                            file=f.file, line=f.line, fn=f.path))


def runtime_outputs(F, rep):
    """incan_stdlib::num trait impls: Output type per (Self, Rhs) equals the policy (float iff any float)."""
    n = 0
    for imp in F.impls:
        tr = imp.get("trait") or ""
        if imp.get("crate") != "incan_stdlib":
            continue
        if not any(k in tr for k in ("PyModImpl", "PyFloorDivImpl", "PyDivImpl", "PyMod<", "PyFloorDiv<", "PyDiv<")):
            continue
        out = [i for i in imp["items"] if i["kind"] == "type" and i["name"] == "Output"]
        if not out:
            continue
        n += 1
        selfty = imp["self"]
        rhs = tr[tr.index("<") + 1: tr.rindex(">")] if "<" in tr else selfty
        any_float = "f64" in (selfty, rhs)
        is_div = "Div" in tr and "FloorDiv" not in tr
        want = "f64" if (any_float or is_div) else "i64"
        got = out[0].get("ty")
        inst = "%s for %s" % (tr.split("::")[-1], selfty)
        ok = got == want
        rep.oblige("RUNTIMETYPE", inst, ok, sample={"rule": "RUNTIMETYPE", "impl": inst, "Output": got, "policy": want})
        if not ok:
            rep.add(Finding("RUNTIMETYPE", "RUNTIMETYPE|%s" % inst,
                            "runtime impl %s has Output = %s but the numeric policy gives %s" % (inst, got, want),
                            fn=imp["path"]))
    rep.floor("RUNTIMETYPE", "runtime numeric trait impls with an Output type", n, 8)


def exponent_shape(F, rep):
    """EXPSHAPE - lowering erases parentheses, so the emitter's classifier sees `2` where the checker's sees `(2)`:
    the AST classifier has to look through `Expr::Paren` (name the variant and classify the inner expression with the
    same code), otherwise `a ** (2)` is float for the checker and integer `pow` for the emitter."""
    from engines import same_file_family, arm_regions
    f = F.one_fn("numeric_adapters::pow_exponent_kind_from_ast")
    if not rep.anchor("EXPSHAPE", "pow_exponent_kind_from_ast", f):
        return
    fam = same_file_family(F, f)
    ok = False
    seen = []
    for q in fam:
        g = F.fns[q] if isinstance(q, str) else q
        for sw in discr_switches(g):
            if sw["adt"] != AST + "Expr":
                continue
            seen.append(sorted(sw["explicit"]))
            if "Paren" not in sw["explicit"]:
                continue
            region = arm_regions(g, sw).get("Paren", set())
            # the Paren arm classifies the inner expression: it calls back into the classifier family
            famp = {x if isinstance(x, str) else x.path for x in fam}
            if any(g.term(b)["t"] in ("call", "tailcall") and (callee_name(g.term(b)) or "") in famp for b in region):
                ok = True
    rep.oblige("EXPSHAPE", "pow_exponent_kind_from_ast:Paren", ok,
               sample={"rule": "EXPSHAPE", "expr_variants_named": seen, "paren_transparent": ok})
    if not ok:
        rep.add(Finding("EXPSHAPE", "EXPSHAPE|pow_exponent_kind_from_ast|Paren",
                        "the checker's exponent classifier does not look through parentheses while lowering erases "
                        "them before the emitter's classifier runs: `a ** (2)` is typed float by the checker and "
                        "emitted as integer `pow`", file=f.file, line=f.line, fn=f.path))


def const_first(F, rep):
    """CONSTFIRST - the type of an un-annotated const is known only after its declaration has been checked, so
    check_program checks every Const declaration before any other declaration: some check_declaration call sits on the
    Const edge of a test of the declaration kind, and no call that is not on such an edge can reach it again."""
    from engines import variant_edges, blocks_dominated_by_edge
    f = F.one_fn("TypeChecker::check_program")
    if not rep.anchor("CONSTFIRST", "TypeChecker::check_program", f):
        return
    calls = [bi for bi, t in f.calls() if (callee_name(t) or "").endswith("TypeChecker>::check_declaration")]
    if not rep.anchor("CONSTFIRST", "check_declaration calls in check_program", calls):
        return
    from engines import reachable_under_bools, callee_generic
    heads = {bi for bi, t in f.calls() if (callee_generic(t) or "").endswith("Iterator::next")}
    const_only = set()
    for sw in discr_switches(f):
        if sw["adt"] != AST + "Declaration" or "Const" not in sw["explicit"]:
            continue
        others = {t for v, t in sw["explicit"].items() if v != "Const"}
        if sw["otherwise_live"]:
            others.add(sw["otherwise"])
        # `matches!(decl.node, Const(_))` goes through a boolean: follow it per edge, up to the next loop iteration
        r_const = reachable_under_bools(f, {}, start=sw["explicit"]["Const"], avoid=heads)
        r_other = set()
        for o in others:
            r_other |= reachable_under_bools(f, {}, start=o, avoid=heads)
        const_only |= (r_const - r_other)
    first = [c for c in calls if c in const_only]
    rest = [c for c in calls if c not in const_only]
    ok = bool(first) and all(not any(c1 in f.reachable(c2) - {c2} for c1 in first) for c2 in rest) and \
        all(any(c2 in f.reachable(c1) for c1 in first) for c2 in rest)
    rep.oblige("CONSTFIRST", "check_program", ok, sample={"rule": "CONSTFIRST", "const_only_calls": len(first),
                                                          "other_calls": len(rest)})
    if not ok:
        rep.add(Finding("CONSTFIRST", "CONSTFIRST|check_program",
                        "check_program no longer checks every const before the other declarations: a function body "
                        "placed before an un-annotated const sees it as Unknown, so `K / 2` is typed without "
                        "consulting the numeric table", file=f.file, line=f.line, fn=f.path))
