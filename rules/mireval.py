"""Path-sensitive constant propagation over finite domains (enums, bools, small ints) on mir_built.

Used by TABLE rules to enumerate the complete decision table of small total functions (numeric policy, adapters,
binop plan). The abstract domain is exact for the fragment: enum values, booleans, integers, tuples, references
to locals; everything else is `UNKNOWN`, and branching on UNKNOWN aborts with OutOfFragment (the rule then fails
closed instead of guessing).
"""


class OutOfFragment(Exception):
    pass


UNKNOWN = ("unknown",)


def enum(adt, variant, fields=()):
    return ("enum", adt, variant, tuple(fields))


def boolean(b):
    return ("bool", bool(b))


def integer(n):
    return ("int", int(n))


def opt_some(v):
    return enum("core::option::Option", "Some", (v,))


def opt_none():
    return enum("core::option::Option", "None", ())


class Evaluator:
    def __init__(self, F, max_steps=20000, call_hook=None):
        self.F = F
        self.max_steps = max_steps
        self.call_hook = call_hook
        self.trace_calls = []

    # ---- place access -------------------------------------------------------------------------------------
    def read_place(self, env, pl):
        v = env.get(pl["l"], UNKNOWN)
        for e in pl["p"]:
            v = self.project(env, v, e)
        return v

    def project(self, env, v, e):
        k = e[0]
        if k == "deref":
            if v[0] == "ref":
                return self.read_place(v[1], v[2])
            if v[0] == "box":
                return v[1]
            return v if v[0] != "unknown" else UNKNOWN
        if k == "dc":
            return v
        if k == "f":
            if v[0] == "enum":
                a = self.F.adts.get(v[1])
                idx = None
                if a is not None:
                    for var in a["variants"]:
                        if var["name"] == v[2]:
                            for i, fld in enumerate(var["fields"]):
                                if fld["name"] == e[3]:
                                    idx = i
                else:
                    try:
                        idx = int(e[3])
                    except ValueError:
                        idx = None
                if idx is not None and idx < len(v[3]):
                    return v[3][idx]
            if v[0] == "struct":
                return v[2].get(e[3], UNKNOWN)
            return UNKNOWN
        if k == "t":
            if v[0] == "tuple" and e[1] < len(v[1]):
                return v[1][e[1]]
            return UNKNOWN
        if k == "up":
            if v[0] == "closure" and e[1] < len(v[1]):
                return v[1][e[1]]
            return UNKNOWN
        return UNKNOWN

    def write_place(self, env, pl, val):
        if not pl["p"]:
            env[pl["l"]] = val
            return
        # writes through projections: only `*ref = v` and tuple/struct field updates of locals are modelled
        if len(pl["p"]) == 1 and pl["p"][0][0] == "deref":
            r = env.get(pl["l"], UNKNOWN)
            if r[0] == "ref":
                self.write_place(r[1], r[2], val)
                return
        if len(pl["p"]) == 1 and pl["p"][0][0] == "t":
            cur = env.get(pl["l"], UNKNOWN)
            items = list(cur[1]) if cur[0] == "tuple" else []
            i = pl["p"][0][1]
            while len(items) <= i:
                items.append(UNKNOWN)
            items[i] = val
            env[pl["l"]] = ("tuple", tuple(items))
            return
        env[pl["l"]] = UNKNOWN

    def operand(self, env, o):
        if "cp" in o:
            return self.read_place(env, o["cp"])
        if "mv" in o:
            return self.read_place(env, o["mv"])
        if "c" in o:
            return self.const(o)
        return UNKNOWN

    def const(self, o):
        c, ty = o["c"], o["ty"]
        if ty == "bool":
            return boolean(c == "true")
        if ty in ("i64", "i32", "u32", "u64", "usize", "isize", "u8", "i8", "u16", "i16", "i128", "u128"):
            try:
                return integer(int(c.split("_")[0]))
            except ValueError:
                return UNKNOWN
        if ty == "()":
            return ("tuple", ())
        if "fn" in o:
            return ("fn", o["fn"])
        if ty.startswith("&") and "str" in ty:
            return ("str", c)
        return UNKNOWN

    # ---- statements ---------------------------------------------------------------------------------------
    def rvalue(self, env, rv):
        r = rv["r"]
        if r == "use":
            return self.operand(env, rv["o"])
        if r in ("ref", "rawptr"):
            return ("ref", env, rv["p"])
        if r == "cfd":
            return self.read_place(env, rv["p"])
        if r == "discr":
            v = self.read_place(env, rv["p"])
            if v[0] == "enum":
                for d, name in rv["vars"]:
                    if name == v[2]:
                        return integer(int(d))
                if v[1].endswith("Option"):
                    return integer(0 if v[2] == "None" else 1)
                if v[1].endswith("Result"):
                    return integer(0 if v[2] == "Ok" else 1)
            return UNKNOWN
        if r == "agg":
            ops = [self.operand(env, o) for o in rv["ops"]]
            ak = rv.get("ak")
            if ak == "adt":
                a = self.F.adts.get(rv["adt"])
                if a is not None and not a["enum"]:
                    return ("struct", rv["adt"], dict(zip(rv["fields"], ops)))
                return enum(rv["adt"], rv["variant"], ops)
            if ak == "tuple":
                return ("tuple", tuple(ops))
            if ak in ("closure", "coroutine_closure"):
                return ("closure", tuple(ops), rv.get("def"))
            return UNKNOWN
        if r == "bin":
            a = self.operand(env, rv["a"])
            b = self.operand(env, rv["b"])
            op = rv["op"]
            if a[0] in ("int", "bool") and b[0] in ("int", "bool"):
                x, y = a[1], b[1]
                if op == "Eq":
                    return boolean(x == y)
                if op == "Ne":
                    return boolean(x != y)
                if op == "Lt":
                    return boolean(x < y)
                if op == "Le":
                    return boolean(x <= y)
                if op == "Gt":
                    return boolean(x > y)
                if op == "Ge":
                    return boolean(x >= y)
                if op in ("Add", "AddWithOverflow"):
                    return integer(x + y)
                if op in ("Sub", "SubWithOverflow"):
                    return integer(x - y)
                if op == "BitAnd" and a[0] == "bool":
                    return boolean(x and y)
                if op == "BitOr" and a[0] == "bool":
                    return boolean(x or y)
            return UNKNOWN
        if r == "un":
            a = self.operand(env, rv["o"])
            if rv["op"] == "Not" and a[0] == "bool":
                return boolean(not a[1])
            if rv["op"] == "Neg" and a[0] == "int":
                return integer(-a[1])
            return UNKNOWN
        if r == "cast":
            return self.operand(env, rv["o"])
        return UNKNOWN

    # ---- calls --------------------------------------------------------------------------------------------
    def call(self, t, args, depth):
        f = t["f"]
        if "indirect" in f:
            return UNKNOWN
        name = f.get("res") or f["path"]
        gen = f["path"]
        self.trace_calls.append(name)
        if self.call_hook is not None:
            r = self.call_hook(name, gen, args, t, self)
            if r is not None:
                return r
        if gen.endswith("PartialEq::eq") or gen.endswith("PartialEq::ne"):
            a = self.deref_all(args[0])
            b = self.deref_all(args[1])
            if self.known(a) and self.known(b):
                eq = self.strip(a) == self.strip(b)
                return boolean(eq if gen.endswith("::eq") else not eq)
            return UNKNOWN
        if gen.endswith("arith::Neg::neg"):
            a = self.deref_all(args[0])
            if a[0] == "int":
                return integer(-a[1])
            return UNKNOWN
        if gen.split("::")[-1] in ("lt", "le", "gt", "ge") and "PartialOrd" in gen:
            a = self.deref_all(args[0])
            b = self.deref_all(args[1])
            if a[0] == "int" and b[0] == "int":
                k = gen.split("::")[-1]
                return boolean({"lt": a[1] < b[1], "le": a[1] <= b[1], "gt": a[1] > b[1], "ge": a[1] >= b[1]}[k])
            return UNKNOWN
        if gen.endswith("Clone::clone") or gen.endswith("::clone"):
            return self.deref_all(args[0])
        if gen.endswith("Deref::deref") or gen.endswith("::as_ref") or gen.endswith("Borrow::borrow"):
            return args[0]
        if gen.endswith("Option::<T>::is_some") or gen.endswith("::is_some"):
            a = self.deref_all(args[0])
            if a[0] == "enum":
                return boolean(a[2] == "Some")
        if gen.endswith("::is_none"):
            a = self.deref_all(args[0])
            if a[0] == "enum":
                return boolean(a[2] == "None")
        if name in self.F.fns and depth < 6:
            callee = self.F.fns[name]
            if "{closure" in name.split("::")[-1] and len(args) == 2 and callee.argc != 2 or \
                    ("{closure" in name.split("::")[-1] and len(args) == 2 and args[1][0] == "tuple"
                     and gen.split("::")[-1] in ("call", "call_mut", "call_once")):
                # rust-call ABI: the argument tuple is spread in the closure body
                args = [args[0]] + list(args[1][1] if args[1][0] == "tuple" else [])
            return self.run(callee, args, depth + 1)
        return UNKNOWN

    def deref_all(self, v, n=6):
        while v[0] == "ref" and n > 0:
            v = self.read_place(v[1], v[2])
            n -= 1
        return v

    def known(self, v):
        v = self.deref_all(v)
        if v[0] == "unknown":
            return False
        if v[0] == "enum":
            return all(self.known(x) for x in v[3])
        if v[0] in ("tuple", "vec"):
            return all(self.known(x) for x in v[1])
        if v[0] == "box":
            return self.known(v[1])
        return v[0] in ("bool", "int", "str")

    def strip(self, v):
        v = self.deref_all(v)
        if v[0] == "enum":
            return ("enum", v[1], v[2], tuple(self.strip(x) for x in v[3]))
        if v[0] in ("tuple", "vec"):
            return (v[0], tuple(self.strip(x) for x in v[1]))
        if v[0] == "box":
            return ("box", self.strip(v[1]))
        return v

    # ---- driver -------------------------------------------------------------------------------------------
    def run(self, fn, args, depth=0):
        env = {}
        for i, a in enumerate(args):
            env[i + 1] = a
        b = 0
        steps = 0
        while True:
            steps += 1
            if steps > self.max_steps:
                raise OutOfFragment("step limit in %s" % fn.path)
            blk = fn.blocks[b]
            for s in blk["st"]:
                if s["s"] == "assign":
                    self.cur_fn, self.cur_dest = fn, s["d"]
                    self.write_place(env, s["d"], self.rvalue(env, s["rv"]))
            t = blk["term"]
            k = t["t"]
            if k in ("goto", "falseedge", "falseunwind", "drop"):
                b = t["to"]
            elif k == "assert":
                b = t["to"]
            elif k == "return":
                return self.strip(env.get(0, UNKNOWN)) if self.known(env.get(0, UNKNOWN)) else env.get(0, UNKNOWN)
            elif k == "switch":
                v = self.operand(env, t["on"])
                v = self.deref_all(v)
                if v[0] not in ("int", "bool"):
                    raise OutOfFragment("branch on a value outside the finite domain in %s (bb%d, line %s)"
                                        % (fn.path, b, t.get("ln")))
                n = int(v[1])
                nxt = None
                for val, tgt in t["targets"]:
                    if int(val) == n:
                        nxt = tgt
                b = nxt if nxt is not None else t["otherwise"]
            elif k == "call":
                args2 = [self.operand(env, o) for o in t["args"]]
                self.cur_fn = fn
                r = self.call(t, args2, depth)
                if t["to"] is None:
                    return ("diverges", (t["f"].get("res") or t["f"].get("path")))
                if isinstance(r, tuple) and r and r[0] == "diverges":
                    return r
                self.write_place(env, t["d"], r)
                b = t["to"]
            elif k == "unreachable":
                raise OutOfFragment("reached `unreachable` in %s" % fn.path)
            else:
                raise OutOfFragment("terminator %s in %s" % (k, fn.path))
