"""C08 — formatting never changes what a program means (DESIGN.md §4 C08).

Decided (structural necessary conditions; the relation parse(fmt(x)) ~ parse(x) itself is NOT decided):
  1 COVER      the formatter's closure reads every non-span AST field (nothing can be dropped silently)
  2 EXHAUST    the formatter's dispatchers name every node variant
  3 SPELL      operator spellings printed by the formatter lex+parse back to the same operator
               (formatter table  o  lexer registry  o  parser token table  =  identity), Display sibling agrees
  4 ESCAPE     escape_string's table is inverted by the lexer's escape table; string payload fields reach the
               writer only through an escaping function; raw byte printing excludes delimiter and backslash
  5 FLOATKIND  the Float literal arm renders through a float-preserving formatter
  6 LINESEP    every statement / declaration formatter ends its line (two statements never share a line)
  7 SRCTEXT    the formatter lexes exactly the text it was given (no pre-processing between the parameter and lex)
"""
from engines import (AST, adts_with_prefix, arm_regions, body_and_closures, callee_generic, callee_name, const_str, cover,
                     discr_switches, enum_table, exhaust, guarded_results, is_span_field, op_place,
                     primary_dispatch, region_outputs, short, str_consts)
from facts import iter_read_places, place_fields
from harness import Finding
from linestate import LineState

EXPLANATION = (
    "Static analysis over the MIR of src/format and the parser/lexer tables. Decides: (1) every non-span AST field is "
    "read in the call-graph closure of Formatter::format; (2) every format_* dispatcher names each variant of its "
    "node enum; (3) the spelling the formatter prints for each BinaryOp/UnaryOp/CompoundOp maps, through the "
    "operator/keyword registries and the parser's own token->operator table (all three extracted from MIR), back to "
    "the same operator, and ast::BinaryOp's Display agrees; (4) each escape emitted by escape_string is decoded to "
    "the same character by Lexer::scan_text_escape, string payloads (Literal::String, FStringPart::Literal, "
    "ImportKind::Python) reach FormatWriter::write only through an escaping call, and raw byte printing tests for "
    "the delimiter and backslash; (5) Literal::Float is rendered by a float-preserving formatter; (6) the "
    "FormatWriter typestate at the exit of every statement/declaration formatter is 'line ended'. Each is a "
    "necessary condition of meaning preservation; the round trip parse(fmt(x)) = parse(x) is not decided.")

FMT_ENTRY = "incan::format::formatter::Formatter::format"

COVER_EXEMPT = {}

DISPATCHERS = [
    ("Formatter::format_declaration", AST + "Declaration", 9),
    ("Formatter::format_statement", AST + "Statement", 15),
    ("Formatter::format_expr", AST + "Expr", 26),
    ("Formatter::format_literal", AST + "Literal", 6),
    ("Formatter::format_pattern", AST + "Pattern", 5),
    ("Formatter::format_type", AST + "Type", 6),
    ("Formatter::format_import", AST + "ImportKind", 5),
    ("Formatter::format_binary_op", AST + "BinaryOp", 18),
    ("Formatter::format_unary_op", AST + "UnaryOp", 2),
]

# AST fields that hold the *unescaped value* of a quoted token; printing them needs re-escaping.
QUOTED_PAYLOADS = [
    (AST + "Literal", "String", "0"),
    (AST + "FStringPart", "Literal", "0"),
    (AST + "ImportKind", "Python", "0"),
]

PASS_THROUGH = ("::deref", "::as_str", "::as_ref", "::borrow", "::clone", "::to_string", "::to_owned", "::into",
                "::from", "::as_bytes")


def registry_table(F, const_path, id_adt):
    """OperatorId/KeywordId variant -> list of spellings, from the registry const's body."""
    f = F.fn(const_path)
    if f is None:
        return None
    tab = {}
    for b in range(len(f.blocks)):
        ids, strs = [], []
        for s in f.stmts(b):
            if s["s"] != "assign":
                continue
            rv = s["rv"]
            if rv["r"] == "agg" and rv.get("adt") == id_adt:
                ids.append(rv["variant"])
            if rv["r"] == "agg" and rv.get("ak") == "array":
                vals = [const_str(o) for o in rv["ops"]]
                if vals and all(v is not None for v in vals):
                    strs.append(vals)
        t = f.term(b)
        if t["t"] == "call":
            for o in t["args"]:
                v = const_str(o)
                if v is not None:
                    strs.append([v])
        if len(ids) == 1 and strs:
            tab[ids[0]] = strs[0]
    return tab


def parser_token_table(F, result_adt):
    pairs = {}
    n = 0
    for p, f in F.fns.items():
        if not p.startswith("incan_syntax::parser::Parser"):
            continue
        for (vals, res, ln) in guarded_results(
                f, lambda n: n.endswith("::match_token") or n.endswith("::check_keyword") or n.endswith("::check"),
                result_adt):
            for v in vals:
                pairs.setdefault(v, set()).add(res)
                n += 1
    return pairs


def run(facts, rep, tier):
    F = facts["default"]
    rep.assumptions += [
        "rustc nightly MIR describes the program the stable toolchain builds",
        "the lexer tokenises operators/keywords by the registry spellings (incan_core::lang::{operators,keywords})",
        "run-time strings written by the formatter (identifiers, rendered literals) are non-empty and do not end "
        "in a blank",
    ]
    if not rep.anchor("COVER", FMT_ENTRY, F.fn(FMT_ENTRY)):
        return
    fm = F.closure([FMT_ENTRY])
    rep.floor("COVER", "functions in the formatter closure", len(fm), 35)

    # 1 COVER
    uni = [a for a in adts_with_prefix(F, [AST]) if short(a) not in ("Span",)]
    n, unread = cover(F, rep, "COVER", "format", fm, uni, lambda a, v, f, i: not is_span_field(i), COVER_EXEMPT)
    rep.floor("COVER", "non-span AST fields", n, 150)

    # 2 EXHAUST
    for fn_suffix, enum_adt, floor in DISPATCHERS:
        exhaust(F, rep, "EXHAUST", fn_suffix, enum_adt, {}, min_explicit=floor)

    # 3 SPELL
    spell(F, rep)

    # 4 ESCAPE
    escape(F, rep, fm)
    source_identity(F, rep)

    # 5 FLOATKIND
    floatkind(F, rep)
    tuple1(F, rep)
    writeorder(F, rep)
    bytesem(F, rep)
    everypath(F, rep, fm)
    strdelim(F, rep)
    blockhead(F, rep, fm)

    # 6 LINESEP
    linesep(F, rep, fm)


def spell(F, rep):
    ops = registry_table(F, "incan_core::lang::operators::OPERATORS", "incan_core::lang::operators::OperatorId")
    kws = registry_table(F, "incan_core::lang::keywords::KEYWORDS", "incan_core::lang::keywords::KeywordId")
    if not rep.anchor("SPELL", "operator registry OPERATORS", ops) or not rep.anchor("SPELL", "keyword registry", kws):
        return
    rep.floor("SPELL", "operator registry entries", len(ops), 25)
    rep.floor("SPELL", "keyword registry entries", len(kws), 30)
    spelling_to_tok = {}
    for k, sp in ops.items():
        for s in sp:
            spelling_to_tok.setdefault(s, set()).add("Operator(%s)" % k)
    for k, sp in kws.items():
        for s in sp:
            spelling_to_tok.setdefault(s, set()).add("Keyword(%s)" % k)
    for (fn_suffix, enum_adt, floor) in (("Formatter::format_binary_op", AST + "BinaryOp", 18),
                                         ("Formatter::format_unary_op", AST + "UnaryOp", 2)):
        f = F.one_fn(fn_suffix)
        if not rep.anchor("SPELL", fn_suffix, f):
            continue
        sw, tab = enum_table(f, enum_adt)
        if not rep.anchor("SPELL", "table of " + fn_suffix, tab):
            continue
        ptab = parser_token_table(F, enum_adt)
        rep.floor("SPELL", "parser token->%s pairs" % short(enum_adt), len(ptab), floor)
        for v, (consts, aggs, callees) in sorted(tab.items()):
            strs = str_consts(consts)
            inst = "%s::%s" % (short(enum_adt), v)
            if len(strs) != 1:
                rep.oblige("SPELL", inst, False)
                rep.add(Finding("SPELL", "SPELL|%s|%s|not-a-constant" % (fn_suffix, inst),
                                "arm for %s does not print exactly one constant spelling (%r); table cannot be "
                                "decided (rule-out-of-fragment)" % (inst, strs), file=f.file, line=f.line, fn=f.path))
                continue
            s = strs[0]
            words = s.strip().split(" ")
            toks = [spelling_to_tok.get(w, set()) for w in words]
            back = set()
            if len(words) == 1:
                for tk in toks[0]:
                    back |= ptab.get(tk, set())
            else:
                # multi-word operator (`not in`): the parser recognises it by its first keyword
                firsts = toks[0]
                for tk in firsts:
                    kw = tk[len("Keyword("):-1] if tk.startswith("Keyword(") else tk
                    back |= ptab.get(kw, set()) | ptab.get(tk, set())
                back = {b for b in back if b == v} or back
                if not all(toks):
                    back = set()
            ok = (v in back) and (len(words) > 1 or back == {v})
            rep.oblige("SPELL", inst, ok, sample={"rule": "SPELL", "op": inst, "printed": s,
                                                  "lexes_to": sorted(set().union(*toks)) if toks else [],
                                                  "parser_maps_to": sorted(back)})
            if not ok:
                rep.add(Finding("SPELL", "SPELL|%s|%s" % (fn_suffix, inst),
                                "formatter prints %r for %s; lexer registry + parser map that spelling to %s — the "
                                "formatted text denotes a different operator (or does not parse)"
                                % (s, inst, sorted(back) or "no operator"), file=f.file, line=f.line, fn=f.path))
        rep.exhaustive_tables.append({"table": fn_suffix, "cells": len(tab)})
    # sibling: Display for BinaryOp
    disp = F.fn("<incan_syntax::ast::BinaryOp as core::fmt::Display>::fmt")
    fb = F.one_fn("Formatter::format_binary_op")
    if disp is not None and fb is not None:
        _, t1 = enum_table(disp, AST + "BinaryOp")
        _, t2 = enum_table(fb, AST + "BinaryOp")
        for v in sorted(t2 or {}):
            a = str_consts(t1.get(v, ([], [], []))[0]) if t1 else []
            b = str_consts(t2[v][0])
            ok = a == b
            rep.oblige("SPELL", "Display-sibling:%s" % v, ok)
            if not ok:
                rep.add(Finding("SPELL", "SPELL|Display-sibling|BinaryOp::%s" % v,
                                "ast::BinaryOp's Display prints %r but the formatter prints %r for the same operator"
                                % (a, b), file=disp.file, line=disp.line, fn=disp.path))
    # CompoundOp: statement formatter's table vs the parser's token table
    fs = F.one_fn("Formatter::format_statement")
    if fs is not None:
        best = None
        for s in discr_switches(fs):
            if s["adt"] == AST + "CompoundOp" and (best is None or len(s["explicit"]) > len(best["explicit"])):
                best = s
        if rep.anchor("SPELL", "CompoundOp match in format_statement", best):
            regs = arm_regions(fs, best)
            ptab = {}
            for p, f in F.fns.items():
                if p.startswith("incan_syntax::parser::Parser"):
                    # parser: `match peek_next().kind { Operator(PlusEq) => Some(CompoundOp::Add) ...}`
                    for s in discr_switches(f):
                        if s["adt"].endswith("operators::OperatorId"):
                            rr = arm_regions(f, s)
                            for tokv, blocks in rr.items():
                                _, aggs, _ = region_outputs(f, blocks)
                                for (adt, var) in aggs:
                                    if adt == AST + "CompoundOp":
                                        ptab.setdefault(tokv, set()).add(var)
            rep.floor("SPELL", "parser OperatorId->CompoundOp pairs", len(ptab), 6)
            for v, blocks in sorted(regs.items()):
                if v == "_":
                    continue
                strs = str_consts(region_outputs(fs, blocks)[0])
                cands = [x.strip() for x in strs if x.strip().endswith("=")]
                back = set()
                for sp in cands:
                    for tk in spelling_to_tok.get(sp, set()):
                        if tk.startswith("Operator("):
                            back |= ptab.get(tk[len("Operator("):-1], set())
                ok = back == {v}
                rep.oblige("SPELL", "CompoundOp::%s" % v, ok, sample={"rule": "SPELL", "op": "CompoundOp::" + v,
                                                                      "printed": cands, "parser_maps_to": sorted(back)})
                if not ok:
                    rep.add(Finding("SPELL", "SPELL|format_statement|CompoundOp::%s" % v,
                                    "formatter prints %r for CompoundOp::%s; lexer+parser map it to %s"
                                    % (cands, v, sorted(back)), file=fs.file, line=best["ln"], fn=fs.path))


def source_identity(F, rep):
    """SRCTEXT — the formatter lexes exactly the text it was given: the argument of lexer::lex in
    format_source_with_config is the function's own `source` parameter (through borrows / copies only). Any
    pre-processing of the text (line-ending normalisation, trimming, case folding ...) changes the contents of
    string literals before the formatter ever sees them."""
    from engines import trace_local_source
    f = F.one_fn("format::format_source_with_config")
    if not rep.anchor("SRCTEXT", "format::format_source_with_config", f):
        return
    lex_calls = [(bi, t) for bi, t in f.calls() if (callee_name(t) or "").endswith("lexer::lex")]
    if not rep.anchor("SRCTEXT", "call of lexer::lex in format_source_with_config", lex_calls):
        return
    for i, (bi, t) in enumerate(lex_calls):
        pl = op_place(t["args"][0]) if t["args"] else None
        src = trace_local_source(f, pl["l"]) if pl is not None else None
        ok = src is not None and src[0] == "arg" and src[1] == 1
        rep.oblige("SRCTEXT", "lex-argument#%d" % (i + 1), ok,
                   sample={"rule": "SRCTEXT", "fn": f.path, "line": t.get("ln"), "lex_argument_origin": str(src)})
        if not ok:
            rep.add(Finding("SRCTEXT", "SRCTEXT|format_source_with_config|lex-argument",
                            "format_source_with_config does not lex the `source` it was given but a value derived "
                            "from it (%s): whatever that step rewrites — e.g. CRLF to LF — is also rewritten inside "
                            "string literals, so the formatted program's literals differ from the original's"
                            % (str(src),), file=f.file, line=t.get("ln"), fn=f.path))
    # format_source forwards its parameter unchanged
    g = F.one_fn("format::format_source")
    if rep.anchor("SRCTEXT", "format::format_source", g):
        for bi, t in g.calls():
            if (callee_name(t) or "").endswith("format_source_with_config"):
                pl = op_place(t["args"][0]) if t["args"] else None
                src = trace_local_source(g, pl["l"]) if pl is not None else None
                ok = src is not None and src[0] == "arg" and src[1] == 1
                rep.oblige("SRCTEXT", "format_source-forwards", ok)
                if not ok:
                    rep.add(Finding("SRCTEXT", "SRCTEXT|format_source|forward",
                                    "format_source passes a value derived from its input (%s) instead of the input "
                                    "itself" % (str(src),), file=g.file, line=t.get("ln"), fn=g.path))


def char_switch_table(f):
    """value(char code) -> consts in the arm, for every SwitchInt on a `char` in f."""
    out = {}
    from engines import postdominators
    pdom = postdominators(f)
    for bi, b in enumerate(f.blocks):
        t = b["term"]
        if t["t"] != "switch" or t["ty"] != "char":
            continue
        join = pdom.get(bi, set()) - {bi}
        for v, tgt in t["targets"]:
            blocks = f.reachable(tgt, avoid=join)
            consts, aggs, callees = region_outputs(f, blocks)
            out[int(v)] = (consts, aggs, callees)
    return out


# std escapers and the two-character escapes they can emit besides \\xNN (byte -> char after the backslash)
_ASCII_ESCAPE_DEFAULT = {0x09: "t", 0x0D: "r", 0x0A: "n", 0x27: "'", 0x22: '"', 0x5C: "\\"}
STD_BYTE_ESCAPERS = {
    "ascii::escape_default": _ASCII_ESCAPE_DEFAULT,
    "escape_ascii": _ASCII_ESCAPE_DEFAULT,
}


def byte_const(c):
    """MIR u8 constant text (`10_u8`, `b'\\n'`) -> int"""
    t = c.split("_")[0]
    if t.isdigit():
        return int(t)
    if t.startswith("0x"):
        try:
            return int(t, 16)
        except ValueError:
            return None
    return None


def char_const(c):
    """MIR char constant text ('\\n', 'a') -> code point."""
    if c.startswith("'") and c.endswith("'"):
        body = c[1:-1]
        try:
            s = bytes(body, "utf-8").decode("unicode_escape") if body.startswith("\\") else body
            if body.startswith("\\u{"):
                return int(body[3:-1], 16)
            if len(s) == 1:
                return ord(s)
        except Exception:
            return None
    return None


def escape(F, rep, fm):
    esc = F.one_fn("formatter::escape_string")
    lex = F.one_fn("scan_text_escape")
    if rep.anchor("ESCAPE", "formatter::escape_string", esc) and rep.anchor("ESCAPE", "Lexer::scan_text_escape", lex):
        etab = char_switch_table(esc)
        ltab = char_switch_table(lex)
        rep.floor("ESCAPE", "escape_string cases", len(etab), 5)
        rep.floor("ESCAPE", "scan_text_escape cases", len(ltab), 4)
        # lexer: code of the char after the backslash -> decoded char code
        dec = {}
        for code, (consts, aggs, callees) in ltab.items():
            for c, ty in consts:
                if ty == "char":
                    cc = char_const(c)
                    if cc is not None:
                        dec[code] = cc
        quote_guard = any(s["s"] == "assign" and s["rv"]["r"] == "bin" and s["rv"]["op"] == "Eq"
                          for b in lex.blocks for s in b["st"])
        for code, (consts, aggs, callees) in sorted(etab.items()):
            strs = str_consts(consts)
            inst = "U+%04X" % code
            ok = False
            why = ""
            if len(strs) == 1 and len(strs[0]) == 2 and strs[0][0] == "\\":
                e = ord(strs[0][1])
                if dec.get(e) == code:
                    ok = True
                elif code == 0x22 and e == 0x22 and quote_guard:
                    ok = True  # `Some(q) if q == quote` arm of the lexer
                else:
                    why = "lexer decodes \\%s to %s" % (strs[0][1], dec.get(e))
            else:
                why = "escape text %r is not a two-character backslash escape" % strs
            rep.oblige("ESCAPE", "escape_string:" + inst, ok,
                       sample={"rule": "ESCAPE", "char": inst, "escaped_as": strs, "lexer_decodes_to": dec.get(
                           ord(strs[0][1])) if strs and len(strs[0]) == 2 else None})
            if not ok:
                rep.add(Finding("ESCAPE", "ESCAPE|escape_string|" + inst,
                                "escape_string writes %r for %s but %s: the literal's value changes when re-lexed"
                                % (strs, inst, why), file=esc.file, line=esc.line, fn=esc.path))
        # every escape the function can write at all (also from a guarded arm or a format template, which the
        # per-character table above does not see) is one the text lexer decodes
        from engines import all_string_constants, fn_fmt_templates
        texts = {v for _, v in all_string_constants(esc)} | set(fn_fmt_templates(esc))
        for txt in sorted(texts):
            if len(txt) < 2 or txt[0] != "\\":
                continue
            e = ord(txt[1])
            good = e in dec or (e == 0x22 and quote_guard) or e == 0x5C and dec.get(0x5C) == 0x5C
            inst = "escape_string:writes:%s" % txt[:2]
            rep.oblige("ESCAPE", inst, good, sample={"rule": "ESCAPE", "written": txt, "lexer_decodes": good})
            if not good:
                rep.add(Finding("ESCAPE", "ESCAPE|escape_string|writes:%s" % txt[:2],
                                "escape_string can write `%s`, an escape the text lexer (scan_text_escape) does not "
                                "decode: the backslash is kept verbatim, so the next `incan fmt` doubles it and the "
                                "literal's value changes" % txt, file=esc.file, line=esc.line, fn=esc.path))
        # the characters that must be escaped inside a double-quoted literal
        for must in (0x22, 0x5C, 0x0A):
            ok = must in etab
            rep.oblige("ESCAPE", "escape_string:must-escape:U+%04X" % must, ok)
            if not ok:
                rep.add(Finding("ESCAPE", "ESCAPE|escape_string|missing:U+%04X" % must,
                                "escape_string has no case for U+%04X: a string containing it is printed raw and no "
                                "longer lexes to the same value" % must, file=esc.file, line=esc.line, fn=esc.path))
    # payload flow
    n_sites = 0
    for p in sorted(fm):
        f = F.fns[p]
        for bi, si, pl, how in iter_read_places(f):
            if how in ("write", "ref_fake") or si < 0:
                continue
            fl = place_fields(pl)
            if not fl or fl[-1] not in QUOTED_PAYLOADS:
                continue
            st = f.stmts(bi)[si]
            if st["d"]["p"]:
                continue
            n_sites += 1
            key = fl[-1]
            inst = "%s::%s.%s" % (short(key[0]), key[1], key[2])
            raw = raw_write_reachable(f, st["d"]["l"])
            rep.oblige("ESCAPE", "payload:" + inst, not raw, sample={"rule": "ESCAPE", "payload": inst, "fn": p,
                                                                     "line": st.get("ln"), "raw_write": raw})
            if raw:
                rep.add(Finding("ESCAPE", "ESCAPE|payload|%s" % inst,
                                "the unescaped value of %s is handed to FormatWriter::write directly: quotes, "
                                "backslashes and control characters inside it are printed raw, so the formatted "
                                "literal lexes to a different value or not at all" % inst,
                                file=f.file, line=st.get("ln"), fn=p))
    rep.floor("ESCAPE", "reads of quoted payload fields in the formatter", n_sites, 3)
    # bytes
    fl = F.one_fn("Formatter::format_literal")
    if rep.anchor("ESCAPE", "Formatter::format_literal", fl):
        sw = primary_dispatch(fl, AST + "Literal")
        regs = arm_regions(fl, sw) if sw else {}
        if rep.anchor("ESCAPE", "Literal::Bytes arm", regs.get("Bytes")):
            blocks = regs["Bytes"]
            consts, aggs, callees = region_outputs(fl, blocks)
            ints = set()
            for c, ty in consts:
                if ty == "u8":
                    try:
                        ints.add(int(c.split("_")[0]))
                    except ValueError:
                        pass
            # `match *byte { b'"' | b'\\' => .. }` tests the same bytes through a SwitchInt on a u8
            for b in blocks:
                t = fl.term(b)
                if t["t"] == "switch" and t.get("ty") == "u8":
                    for v, _ in t["targets"]:
                        try:
                            ints.add(int(v))
                        except ValueError:
                            pass
            raw_cast = any(s["s"] == "assign" and s["rv"]["r"] == "cast" and s["rv"]["ty"] == "char"
                           for b in blocks for s in fl.stmts(b))
            # closures built inside the arm (`.flat_map(|b| ..)`) belong to it
            for b in blocks:
                for st in fl.stmts(b):
                    if st["s"] == "assign" and st["rv"]["r"] == "agg" and st["rv"].get("ak") == "closure":
                        for q in body_and_closures(F, st["rv"]["def"]):
                            g = F.fns[q]
                            callees = list(callees) + [callee_name(t) or callee_generic(t) or "" for _, t in g.calls()]
                            raw_cast = raw_cast or any(
                                s2["s"] == "assign" and s2["rv"]["r"] == "cast" and s2["rv"]["ty"] == "char"
                                for blk in g.blocks for s2 in blk["st"])
            raw_cast = raw_cast or any("char as core::convert::From<u8>" in (c or "") or
                                       (c or "").endswith("char::from_u32") for c in callees)
            # library escapers have a fixed table (modelled below); it must be invertible by the byte lexer
            lib = sorted({c for c in callees if c and any(c.startswith(k) or k in c for k in STD_BYTE_ESCAPERS)})
            own = any("escape" in (c or "") and c in F.fns for c in callees)
            escapes = own or bool(lib)
            ok = (not raw_cast) or escapes or ({0x22, 0x5C} <= ints)
            if lib:
                bl = F.one_fn("scan_byte_escape")
                if rep.anchor("ESCAPE", "Lexer::scan_byte_escape", bl):
                    btab = char_switch_table(bl)
                    u8s = {}
                    for code, (cs, ag, cl) in btab.items():
                        for c, ty in cs:
                            if ty == "u8":
                                v = byte_const(c)
                                if v is not None:
                                    u8s[code] = v
                    for name in lib:
                        model = [m for k, m in STD_BYTE_ESCAPERS.items() if k in name][0]
                        for byte, esc_ch in sorted(model.items()):
                            good = u8s.get(ord(esc_ch)) == byte or (byte == 0x22 and esc_ch == '"')
                            inst = "bytes-lib:%s:0x%02x" % (name.split("::")[-1], byte)
                            rep.oblige("ESCAPE", inst, good, sample={"rule": "ESCAPE", "escaper": name,
                                                                     "byte": byte, "printed_as": "\\" + esc_ch,
                                                                     "byte_lexer_decodes_to": u8s.get(ord(esc_ch))})
                            if not good:
                                rep.add(Finding("ESCAPE", "ESCAPE|format_literal|%s" % inst,
                                                "the Bytes arm prints byte 0x%02x as `\\%s` (table of %s) but the byte "
                                                "lexer does not decode that escape back to the same single byte inside "
                                                "a b\"...\" literal: the literal's value changes when re-lexed"
                                                % (byte, esc_ch, name), file=fl.file, line=sw["ln"], fn=fl.path))
            rep.oblige("ESCAPE", "bytes-delimiters", ok, sample={"rule": "ESCAPE", "arm": "Literal::Bytes",
                                                                 "u8_constants_tested": sorted(ints),
                                                                 "prints_raw_char": raw_cast})
            if not ok:
                rep.add(Finding("ESCAPE", "ESCAPE|format_literal|Bytes-delimiters",
                                "bytes are printed raw whenever 32 <= b < 127; the quote (0x22) and backslash (0x5c) "
                                "are inside that range and are never tested for, so b\"a\\\"b\" is printed as "
                                "b\"a\"b\"", file=fl.file, line=sw["ln"], fn=fl.path))


def raw_write_reachable(f, local):
    """Does the value in `local` (a &String / &str view of a payload) reach FormatWriter::write without passing
    through a transforming call?"""
    views = {local}
    changed = True
    while changed:
        changed = False
        for bi, b in enumerate(f.blocks):
            for s in b["st"]:
                if s["s"] == "assign" and not s["d"]["p"] and s["d"]["l"] not in views:
                    rv = s["rv"]
                    src = None
                    if rv["r"] in ("use", "cast"):
                        p = op_place(rv["o"])
                        if p is not None and all(e[0] == "deref" for e in p["p"]):
                            src = p["l"]
                    elif rv["r"] in ("ref", "cfd"):
                        if all(e[0] == "deref" for e in rv["p"]["p"]):
                            src = rv["p"]["l"]
                    if src in views:
                        views.add(s["d"]["l"])
                        changed = True
            t = b["term"]
            if t["t"] == "call" and not t["d"]["p"] and t["d"]["l"] not in views:
                n = callee_generic(t) or ""
                if any(n.endswith(x) for x in PASS_THROUGH) and t["args"]:
                    p = op_place(t["args"][0])
                    if p is not None and p["l"] in views:
                        views.add(t["d"]["l"])
                        changed = True
    for bi, t in f.calls():
        n = callee_name(t) or ""
        if n.endswith("FormatWriter::write") or n.endswith("FormatWriter::writeln"):
            for o in t["args"][1:]:
                p = op_place(o)
                if p is not None and p["l"] in views:
                    return True
    return False


def floatkind(F, rep):
    fl = F.one_fn("Formatter::format_literal")
    if not rep.anchor("FLOATKIND", "Formatter::format_literal", fl):
        return
    sw = primary_dispatch(fl, AST + "Literal")
    regs = arm_regions(fl, sw) if sw else {}
    if not rep.anchor("FLOATKIND", "Literal::Float arm", regs.get("Float")):
        return
    consts, aggs, callees = region_outputs(fl, regs["Float"])
    strs = str_consts(consts)
    preserving = any("new_debug" in c or "float" in c.lower() or "<f64 as core::fmt::Debug>" in c or
                     "LowerExp" in c for c in callees) or any(".0" in s or "{:?}" in s for s in strs)
    display_only = any(c.endswith("ToString>::to_string") or "new_display" in c for c in callees)
    ok = preserving
    rep.oblige("FLOATKIND", "Literal::Float", ok, sample={"rule": "FLOATKIND", "callees": callees, "consts": strs})
    if not ok:
        rep.add(Finding("FLOATKIND", "FLOATKIND|format_literal|Literal::Float",
                        "the Float arm renders the value with %s only: f64's Display prints 1.0 as `1`, which "
                        "re-parses as an int literal (the numeric kind, and so `/`-vs-`//` typing, changes)"
                        % ("f64: Display (to_string)" if display_only else "a renderer that is not float-preserving"),
                        file=fl.file, line=sw["ln"], fn=fl.path))


WRITE_ORDER = (
    # formatter function, markers in the order the parser consumes them (a callee suffix or a written literal)
    ("Formatter::format_function", ("write_visibility", "async ", "def ")),
    ("Formatter::format_method", ("async ", "def ")),
    ("Formatter::format_const", ("write_visibility", "const ")),
    ("Formatter::format_model", ("write_visibility", "model ")),
    ("Formatter::format_class", ("write_visibility", "class ")),
    ("Formatter::format_trait", ("write_visibility", "trait ")),
    ("Formatter::format_enum", ("write_visibility", "enum ")),
)


def writeorder(F, rep):
    """WRITEORDER — declaration markers are written in the order the parser consumes them (`pub`, then `async`, then
    the keyword): no marker that comes later in that order can be written on a path that still reaches the write of an
    earlier one. (`async pub def f` does not parse: `declaration()` takes `pub` before it dispatches on `async`/`def`.)"""
    n = 0
    for suf, order in WRITE_ORDER:
        f = F.one_fn(suf)
        if f is None:
            continue
        blocks = {}
        for item in order:
            hits = []
            for bi, t in f.calls():
                cn = callee_name(t) or ""
                if item.endswith(" "):
                    if cn.endswith("FormatWriter::write") and len(t["args"]) > 1 and \
                            (const_str(t["args"][1]) or _resolve(f, t["args"][1])) == item:
                        hits.append(bi)
                elif cn.endswith("::" + item):
                    hits.append(bi)
            blocks[item] = hits
        for i, a in enumerate(order):
            for b in order[i + 1:]:
                if not blocks[a] or not blocks[b]:
                    continue
                n += 1
                bad = [(x, y) for y in blocks[b] for x in blocks[a] if x in f.reachable(y) and x != y]
                inst = "%s:%s<%s" % (suf.split("::")[-1], a.strip(), b.strip())
                rep.oblige("WRITEORDER", inst, not bad, sample={"rule": "WRITEORDER", "fn": f.path, "first": a.strip(),
                                                                "then": b.strip(), "holds": not bad})
                if bad:
                    rep.add(Finding("WRITEORDER", "WRITEORDER|%s|%s-after-%s" % (suf.split("::")[-1], a.strip(), b.strip()),
                                    "%s can write `%s` after `%s`: the parser consumes `%s` first, so the formatted "
                                    "declaration no longer parses" % (suf.split("::")[-1], a.strip(), b.strip(),
                                                                      a.strip()), file=f.file,
                                    line=f.term(bad[0][0]).get("ln"), fn=f.path))
    rep.floor("WRITEORDER", "ordered marker pairs checked", n, 6)


BYTE_CASES = (
    # byte value, what must be written for it: 'esc' = a backslash then the byte itself, 'raw' = the byte itself,
    # 'hex' = a \xNN escape
    (0x22, "esc"), (0x5C, "esc"), (0x41, "raw"), (0x20, "raw"), (0x7E, "raw"), (0x27, "raw"),
    (0x07, "hex"), (0x1F, "hex"), (0x7F, "hex"), (0xC3, "hex"), (0x0A, "hex|named"),
)


def bytesem(F, rep):
    """BYTESEM — what the Bytes arm of format_literal writes for ONE byte, decided per byte value by propagating the
    value through every comparison / match on it (assume-and-propagate; the order of the tests matters and is followed):
    the quote and the backslash are written escaped, other printable ASCII raw, everything else as an escape the byte
    lexer decodes."""
    fl = F.one_fn("Formatter::format_literal")
    if fl is None:
        return
    sw = primary_dispatch(fl, AST + "Literal")
    regs = arm_regions(fl, sw) if sw else {}
    reg = regs.get("Bytes")
    if not reg:
        return
    nexts = [b for b in reg if fl.term(b)["t"] == "call" and (callee_generic(fl.term(b)) or "").endswith("Iterator::next")]
    if not nexts:
        # no explicit per-byte loop (iterator pipeline, library escaper): this clause is not decided here; the ESCAPE
        # rule models library escapers against the byte lexer
        rep.notes.append("BYTESEM: no per-byte loop in the Bytes arm; not decided by this rule")
        return
    head = nexts[0]

    def classify_write(t):
        a = t["args"][1] if len(t["args"]) > 1 else None
        v = (const_str(a) or _resolve(fl, a)) if a is not None else None
        if v is not None:
            return "lit:" + v
        # a String built from the byte: to_string of a char cast, or format!("\\x{:02x}")
        pl = op_place(a) if a is not None else None
        cur = pl["l"] if pl is not None else None
        for _ in range(8):
            if cur is None:
                break
            d = fl.single_def(cur)
            if d is None:
                break
            if d[2] == "call":
                g = callee_generic(d[3]) or callee_name(d[3]) or ""
                if g.endswith("to_string") or "ToString" in g:
                    return "raw"
                if g.endswith("fmt::format") or g.endswith("format::format_inner") or "alloc::fmt::format" in g:
                    return "hex"
                nxt = op_place(d[3]["args"][0]) if d[3]["args"] else None
                cur = nxt["l"] if nxt is not None else None
                continue
            if d[2] == "assign" and d[3]["r"] in ("ref", "cfd"):
                cur = d[3]["p"]["l"]
            elif d[2] == "assign" and d[3]["r"] in ("use", "cast") and op_place(d[3]["o"]) is not None:
                cur = op_place(d[3]["o"])["l"]
            else:
                break
        return "?"

    def u8_operand(o):
        pl = op_place(o)
        if pl is None:
            return False
        ty = fl.local_ty(pl["l"])
        return ty.replace("&", "").strip() == "u8" or (any(e[0] == "deref" for e in pl["p"]) and "u8" in ty)

    for val, want in BYTE_CASES:
        seqs = set()
        todo = [(s2, (), ()) for s2 in fl.succs()[head] if s2 in reg]
        seen = set()
        while todo:
            b, env, trace = todo.pop()
            if (b, env, trace) in seen or len(trace) > 4:
                continue
            seen.add((b, env, trace))
            if b == head:
                seqs.add(trace)
                continue
            if b not in reg:
                continue
            e = dict(env)
            for st in fl.stmts(b):
                if st["s"] != "assign" or st["d"]["p"]:
                    continue
                rv = st["rv"]
                dl = st["d"]["l"]
                res = None
                if rv["r"] == "bin" and rv["op"] in ("Eq", "Ne", "Lt", "Le", "Gt", "Ge"):
                    ka = byte_const(rv["a"]["c"]) if "c" in rv["a"] else None
                    kb = byte_const(rv["b"]["c"]) if "c" in rv["b"] else None
                    if kb is not None and u8_operand(rv["a"]):
                        x, y = val, kb
                    elif ka is not None and u8_operand(rv["b"]):
                        x, y = ka, val
                    else:
                        x = y = None
                    if x is not None:
                        res = {"Eq": x == y, "Ne": x != y, "Lt": x < y, "Le": x <= y, "Gt": x > y, "Ge": x >= y}[rv["op"]]
                elif rv["r"] == "use":
                    pl = op_place(rv["o"])
                    if pl is not None and not pl["p"]:
                        res = e.get(pl["l"])
                elif rv["r"] == "un" and rv["op"] == "Not":
                    pl = op_place(rv["o"])
                    v0 = e.get(pl["l"]) if pl is not None and not pl["p"] else None
                    res = (not v0) if v0 is not None else None
                if res is None:
                    e.pop(dl, None)
                else:
                    e[dl] = res
            t = fl.term(b)
            succ = [x for x in fl.succs()[b]]
            tr = trace
            if t["t"] == "switch":
                pl = op_place(t["on"])
                if t.get("ty") == "bool" and pl is not None and not pl["p"] and pl["l"] in e:
                    succ = [t["otherwise"]] if e[pl["l"]] else [x for v2, x in t["targets"] if v2 == "0"]
                elif t.get("ty") == "u8":
                    hit = [x for v2, x in t["targets"] if v2 == str(val)]
                    succ = hit or [t["otherwise"]]
            elif t["t"] == "call":
                if (callee_name(t) or "").endswith("FormatWriter::write"):
                    tr = trace + (classify_write(t),)
                if not t["d"]["p"]:
                    e.pop(t["d"]["l"], None)
                succ = [t["to"]] if t.get("to") is not None else []
            env2 = tuple(sorted(e.items()))
            for s2 in succ:
                todo.append((s2, env2, tr))
        def norm(seq):
            if seq == ("lit:\\", "raw"):
                return "esc"
            if seq == ("raw",):
                return "raw"
            if seq == ("hex",):
                return "hex"
            if len(seq) == 1 and seq[0].startswith("lit:\\") and len(seq[0]) == 6:
                return "named"
            return "other:" + ",".join(seq)
        got = sorted({norm(x) for x in seqs})
        ok = len(got) == 1 and got[0] in want.split("|")
        inst = "byte:0x%02X" % val
        rep.oblige("BYTESEM", inst, ok, sample={"rule": "BYTESEM", "byte": "0x%02X" % val, "written_as": got,
                                                "expected": want})
        if not ok:
            rep.add(Finding("BYTESEM", "BYTESEM|format_literal|0x%02X" % val,
                            "for the byte 0x%02X the Bytes arm writes %s, expected %s: %s" % (
                                val, got, want,
                                "the quote / backslash is printed raw and the literal no longer lexes to the same "
                                "bytes" if want == "esc" else "the literal's bytes change when re-lexed"),
                            file=fl.file, line=sw["ln"], fn=fl.path))


def tuple1(F, rep):
    """TUPLE1 — a one-element tuple is the only literal whose brackets alone do not identify it: `(x)` is a
    parenthesised expression (Expr::Paren), `(x,)` is the tuple. The Tuple arm of format_expr therefore has to write a
    comma on the path where the tuple has exactly one element — a `len() == 1` test inside the arm with a `","` write
    on its true edge (or an unconditional trailing comma)."""
    fe = F.one_fn("Formatter::format_expr")
    if not rep.anchor("TUPLE1", "Formatter::format_expr", fe):
        return
    sw = primary_dispatch(fe, AST + "Expr")
    regs = arm_regions(fe, sw) if sw else {}
    reg = regs.get("Tuple")
    if not rep.anchor("TUPLE1", "Expr::Tuple arm of format_expr", reg):
        return
    from c09 import bool_edges
    ok = False
    how = "no `len() == 1` test with a comma write in the arm or in the helpers it calls"
    scopes = [(fe, set(reg))]
    for b in reg:
        t = fe.term(b)
        n = callee_name(t) if t["t"] == "call" else None
        if n and n in F.fns and "Formatter" in n and n != fe.path:
            g = F.fns[n]
            scopes.append((g, set(range(len(g.blocks)))))
    for g, blocks in scopes:
        lens = {t["d"]["l"] for b in blocks for t in [g.term(b)] if t["t"] == "call" and
                (callee_generic(t) or "").endswith("::len") and not t["d"]["p"]}
        for b in blocks:
            for st in g.stmts(b):
                if st["s"] != "assign" or st["rv"]["r"] != "bin" or st["rv"]["op"] != "Eq" or st["d"]["p"]:
                    continue
                a, c = st["rv"]["a"], st["rv"]["b"]
                pa = op_place(a)
                one = c.get("c", "").split("_")[0] == "1"
                if not (one and pa is not None and not pa["p"] and
                        (pa["l"] in lens or any(x in lens for x in _copies_of(g, pa["l"])))):
                    continue
                under = set()
                for (x, y) in bool_edges(g, st["d"]["l"], True):
                    under |= blocks_dominated_by_edge_(g, x, y)
                for b2 in under:
                    t = g.term(b2)
                    if t["t"] == "call" and (callee_name(t) or "").endswith("FormatWriter::write") and \
                            len(t["args"]) > 1 and (const_str(t["args"][1]) or _resolve(g, t["args"][1])) == ",":
                        ok = True
                        how = "`len() == 1` guards a write of \",\" in %s" % g.path.split("::")[-1]
    rep.oblige("TUPLE1", "Expr::Tuple:singleton-comma", ok, sample={"rule": "TUPLE1", "holds": ok, "how": how})
    if not ok:
        rep.add(Finding("TUPLE1", "TUPLE1|format_expr|Expr::Tuple",
                        "the Tuple arm of format_expr never writes the trailing comma of a one-element tuple (%s): "
                        "`(x,)` is printed as `(x)`, which parses back as a parenthesised expression, not a tuple"
                        % how, file=fe.file, line=sw["ln"], fn=fe.path))


def _copies_of(f, l, depth=4):
    out = set()
    for _ in range(depth):
        d = f.single_def(l)
        if d is None or d[2] != "assign" or d[3]["r"] not in ("use", "cast"):
            break
        pl = op_place(d[3]["o"])
        if pl is None or pl["p"]:
            break
        l = pl["l"]
        out.add(l)
    return out


def _resolve(f, o):
    from engines import resolve_str
    try:
        return resolve_str(f, o)
    except Exception:
        return None


def blocks_dominated_by_edge_(f, a, b):
    from engines import blocks_dominated_by_edge
    return blocks_dominated_by_edge(f, a, b)


def linesep(F, rep, fm):
    paths = [p for p in fm if p.startswith("incan::format::formatter")]
    ls = LineState(F, paths)
    ls.solve([FMT_ENTRY], [("E",)])
    targets = []
    for p in paths:
        last = p.split("::")[-1]
        if last in ("format_statement", "format_declaration"):
            targets.append(p)
    rep.floor("LINESEP", "statement/declaration formatters", len(targets), 2)
    for p in sorted(targets):
        f = F.fns[p]
        for e, exits in sorted(ls.summary[p].items()):
            bad = sorted(x for x in exits if x[0] not in ("N1", "N2"))
            inst = "%s@%s" % (p.split("::")[-1], e[0])
            rep.oblige("LINESEP", inst, not bad, sample={"rule": "LINESEP", "fn": p, "entry": e[0],
                                                         "exits": sorted(x[0] for x in exits)})
            if bad:
                rep.add(Finding("LINESEP", "LINESEP|%s|exit-mid-line" % p.split("::")[-1],
                                "%s can return with the writer in the middle of a line (%s): the next statement "
                                "would be printed on the same line" % (p.split("::")[-1], bad[0][0]),
                                file=f.file, line=f.line, fn=p))


# fields a printer function may consult on some paths only, one reason each
EVERYPATH_EXEMPT = {
    ("format_import", "ImportDecl", "alias"):
        "From / RustFrom imports carry an alias per item; the declaration-level alias is None for them (parser)",
    ("format_import_path", "ImportPath", "parent_levels"):
        "an absolute path (`crate::..`) has no parent levels; the parser sets the count to 0 there",
}


def _node_field_reads(F, f, depth=1):
    """(param local, struct, field) -> blocks of f that USE the field of a struct-typed AST parameter. Taking a
    reference, copying it or packing it into a tuple only makes a view; a use is a discriminant read, an operator, a
    branch, or a call on the field or on a view of it. A call that hands the whole parameter to a same-file function
    counts as using what that function uses."""
    from engines import iter_operands_rv

    def key_of(pl):
        if not (1 <= pl["l"] <= f.argc):
            return None
        fs = [e for e in pl["p"] if e[0] == "f"]
        if not fs or any(e[0] == "dc" for e in pl["p"][:pl["p"].index(fs[0])]):
            return None
        adt = fs[0][1]
        if not adt.startswith(AST) or F.adts.get(adt, {}).get("enum"):
            return None
        return (pl["l"], short(adt), fs[0][3])

    views = {}          # local -> set of keys it is a view of

    tviews = {}         # (tuple local, element) -> keys that element is a view of

    def keys_of(pl):
        k = key_of(pl)
        ks = set([k]) if k else set()
        if pl["p"] and pl["p"][0][0] == "t" and any(tl == pl["l"] for tl, _ in tviews):
            return ks | tviews.get((pl["l"], pl["p"][0][1]), set())
        return ks | views.get(pl["l"], set())

    changed = True
    rounds = 0
    while changed and rounds < 8:
        changed = False
        rounds += 1
        for b in f.blocks:
            for st in b["st"]:
                if st["s"] != "assign" or st["d"]["p"]:
                    continue
                rv = st["rv"]
                src = set()
                if rv["r"] in ("ref", "cfd") and isinstance(rv.get("p"), dict):
                    src = keys_of(rv["p"])
                elif rv["r"] in ("use", "cast"):
                    pl = op_place(rv["o"])
                    if pl is not None:
                        src = keys_of(pl)
                elif rv["r"] == "agg" and rv.get("ak") != "closure":
                    for i, o in enumerate(iter_operands_rv(rv)):
                        pl = op_place(o)
                        ks = keys_of(pl) if pl is not None else set()
                        if rv.get("ak") == "tuple":
                            if not ks <= tviews.get((st["d"]["l"], i), set()) or (st["d"]["l"], i) not in tviews:
                                tviews.setdefault((st["d"]["l"], i), set()).update(ks)
                                changed = True
                        src |= ks
                if src and not src <= views.get(st["d"]["l"], set()):
                    views.setdefault(st["d"]["l"], set()).update(src)
                    changed = True
    out = {}
    for bi, b in enumerate(f.blocks):
        used = []
        for st in b["st"]:
            if st["s"] != "assign":
                continue
            rv = st["rv"]
            if rv["r"] in ("ref", "cfd", "use", "cast") or (rv["r"] == "agg" and rv.get("ak") != "closure"):
                continue
            if isinstance(rv.get("p"), dict):
                used.append(rv["p"])
            for o in iter_operands_rv(rv):
                pl = op_place(o)
                if pl is not None:
                    used.append(pl)
        t = b["term"]
        if t["t"] in ("call", "tailcall"):
            for i, o in enumerate(t["args"]):
                pl = op_place(o)
                if pl is None:
                    continue
                used.append(pl)
                cn = callee_name(t)
                g = F.fns.get(cn) if cn else None
                if depth > 0 and g is not None and g.file == f.file and g.path != f.path \
                        and 1 <= pl["l"] <= f.argc and all(e[0] == "deref" for e in pl["p"]):
                    for (pl2, adt, fld), _bl in _node_field_reads(F, g, depth - 1).items():
                        if pl2 == i + 1:
                            out.setdefault((pl["l"], adt, fld), set()).add(bi)
        elif t["t"] == "switch":
            pl = op_place(t["on"])
            if pl is not None:
                used.append(pl)
        for pl in used:
            for k in keys_of(pl):
                out.setdefault(k, set()).add(bi)
    return out


def everypath(F, rep, fm):
    """EVERYPATH - a printer function that consults a field of the node it prints consults it on every path from its
    entry to its return. On a path that skips the field the same text is written whatever the field holds, so two
    nodes that differ there (an annotation present / absent) are printed alike and the formatted file means
    something else."""
    from engines import reaches
    n = 0
    for p in sorted(fm):
        f = F.fns[p]
        if "{" in p.split("::")[-1] or not p.startswith("incan::format::formatter"):
            continue
        rets = [bi for bi in range(len(f.blocks)) if f.term(bi)["t"] == "return"]
        if not rets:
            continue
        fn = p.split("::")[-1]
        for (pl, adt, fld), blocks in sorted(_node_field_reads(F, f).items()):
            n += 1
            cut = not reaches(f, 0, rets, avoid=blocks)
            exempt = EVERYPATH_EXEMPT.get((fn, adt, fld))
            inst = "%s:%s.%s" % (fn, adt, fld)
            rep.oblige("EVERYPATH", inst, cut or bool(exempt),
                       sample={"rule": "EVERYPATH", "fn": fn, "field": "%s.%s" % (adt, fld),
                               "read_on_every_path": cut, "reviewed": exempt})
            if not cut and not exempt:
                rep.add(Finding("EVERYPATH", "EVERYPATH|%s|%s.%s" % (fn, adt, fld),
                                "%s reads %s.%s on some paths only: on the others the printed text does not depend on "
                                "it, so the part of the source it holds is dropped by `incan fmt`" % (fn, adt, fld),
                                file=f.file, line=f.line, fn=p))
    rep.floor("EVERYPATH", "fields of struct-typed nodes read by printer functions", n, 60)


def strdelim(F, rep):
    """STRDELIM - escape_string protects the double quote only (and the lexer's escape for a quote is tied to the
    opening quote), so the text written around an escaped string payload is the constant `"`: in the String arm of
    format_literal every write is that constant or the escaped payload."""
    from engines import backward_slice, resolve_str, all_string_constants
    fl = F.one_fn("Formatter::format_literal")
    if not rep.anchor("STRDELIM", "Formatter::format_literal", fl):
        return
    sw = primary_dispatch(fl, AST + "Literal")
    regs = arm_regions(fl, sw) if sw else {}
    if not rep.anchor("STRDELIM", "Literal::String arm", regs.get("String")):
        return
    blocks = regs["String"]
    n = 0
    bad = []
    escaped = False
    for bi in sorted(blocks):
        t = fl.term(bi)
        if t["t"] != "call":
            continue
        cn = callee_name(t) or ""
        if not (cn.endswith("FormatWriter::write") or cn.endswith("FormatWriter::writeln")):
            continue
        n += 1
        o = t["args"][1]
        v = resolve_str(fl, o)
        if v is not None:
            if v != '"':
                bad.append((t.get("ln"), "writes the constant %r" % v))
            continue
        pl = op_place(o)
        _, calls, _ = backward_slice(fl, [pl["l"]]) if pl is not None else (None, [], None)
        names = [callee_name(c) or "" for _, c in calls]
        if any(x.endswith("escape_string") for x in names):
            escaped = True
            # a formatted wrapper may add quotes of its own: only `"` pieces
            continue
        bad.append((t.get("ln"), "writes a run-time value that is not the escaped payload"))
    rep.floor("STRDELIM", "writes in the String arm", n, 2)
    ok = not bad and escaped
    rep.oblige("STRDELIM", "format_literal:String", ok, sample={"rule": "STRDELIM", "writes": n, "escaped": escaped})
    if not ok:
        why = bad[0][1] if bad else "never writes the result of escape_string"
        rep.add(Finding("STRDELIM", "STRDELIM|format_literal|String",
                        "the String arm of format_literal %s: escape_string only protects `\"`, so any other "
                        "delimiter lets a quote inside the value end the literal early (or changes what an escape "
                        "means)" % why, file=fl.file, line=(bad[0][0] if bad else sw["ln"]), fn=fl.path))


BLOCK_OPENERS = (":", "=>")


def blockhead(F, rep, fm):
    """BLOCKHEAD - the parser accepts `Newline Indent` only after `:` (declarations, statements) or `=>` (match
    arms), so every `indent()` of the printer is preceded, on every path, by a line whose last written text ends in
    one of the two. An indented block after anything else does not parse again."""
    from engines import resolve_str
    n = 0

    def last_writes(f, b0, preds):
        seen, todo, out = set(), list(preds.get(b0, ())), []
        while todo:
            b = todo.pop()
            if b in seen:
                continue
            seen.add(b)
            t = f.term(b)
            if t["t"] == "call":
                cn = callee_name(t) or ""
                if cn.startswith("incan::format::"):
                    kind = cn.split("::")[-1]
                    if kind in ("write", "writeln"):
                        out.append((b, kind, resolve_str(f, t["args"][1]) if len(t["args"]) > 1 else None))
                        continue
                    if kind == "newline" or "Formatter::" in cn:
                        out.append((b, kind, None))
                        continue
            if b == 0:
                out.append((b, "entry", None))
            todo += list(preds.get(b, ()))
        return out

    for p in sorted(fm):
        f = F.fns[p]
        if not p.startswith("incan::format::formatter"):
            continue
        preds = {}
        for bi, ss in enumerate(f.succs()):
            for s2 in ss:
                preds.setdefault(s2, set()).add(bi)
        per = 0
        for bi, t in f.calls():
            if not (callee_name(t) or "").endswith("FormatWriter::indent"):
                continue
            n += 1
            per += 1
            bad = None
            for (b, kind, txt) in last_writes(f, bi, preds):
                if kind == "writeln":
                    good = txt is not None and txt.rstrip().endswith(BLOCK_OPENERS)
                elif kind == "newline":
                    inner = last_writes(f, b, preds)
                    good = bool(inner) and all(k2 == "write" and t2 is not None and t2.rstrip().endswith(BLOCK_OPENERS)
                                               for _, k2, t2 in inner)
                else:
                    good = False
                if not good:
                    bad = (kind, txt)
            fn = p.split("::")[-1]
            inst = "%s#%d" % (fn, per)
            rep.oblige("BLOCKHEAD", inst, bad is None)
            if bad is not None:
                rep.add(Finding("BLOCKHEAD", "BLOCKHEAD|%s" % inst,
                                "%s opens an indented block after a line that does not end in `:` or `=>` (last thing "
                                "written: %s): the parser accepts an indented block only after one of those, so the "
                                "formatted file does not parse" % (fn, bad[1] if bad[1] is not None else bad[0]),
                                file=f.file, line=t.get("ln"), fn=p))
    rep.floor("BLOCKHEAD", "indent() calls in the formatter", n, 12)
