"""C09 — formatting is idempotent and consistent with --check (DESIGN.md §4 C09).

fmt(fmt(x)) == fmt(x) relates two runs and is NOT decided. Decided structural clauses:
  1 READONLY  every filesystem mutator in `format_files` is control-dependent on !check_mode && !diff_mode, and
              format_source / check_formatted / format_diff cannot reach a mutator at all
  2 SAMECMP   the rewrite and the --check verdict are both gated by the same `source != formatted` value
  3 TAIL      FormatWriter typestate at finish(): output ends in exactly one newline
  4 BLANKS    no newline is emitted right after a literal that ends in a blank (no trailing whitespace);
              no literal written by the formatter contains a tab
"""
from engines import (blocks_dominated_by_edge, callee_generic, callee_name, derived_locals, op_place, const_str,
                     all_string_constants)
from harness import Finding
from linestate import LineState

EXPLANATION = (
    "Static analysis of src/cli/commands.rs::format_files and src/format. Decides: (1) each std::fs mutator call in "
    "format_files is dominated by the false edges of both check_mode and diff_mode, and the closures of "
    "format_source, check_formatted and format_diff contain no filesystem mutator; (2) the file rewrite and the "
    "--check/--diff verdict are dominated by the true edge of one and the same `source != formatted` comparison; "
    "(3) abstract interpretation of the FormatWriter typestate (empty / mid-line / mid-line-after-blank / one "
    "newline / >=2 newlines) over the whole Formatter call graph: at finish() the state must be 'exactly one "
    "newline', and no newline may be written in state mid-line-after-blank; (4) no string literal handed to the "
    "writer contains a tab. Idempotence fmt(fmt(x)) = fmt(x) itself is a relation between two runs and is not "
    "decided.")

FS_READONLY = ("read_to_string", "read", "read_dir", "metadata", "symlink_metadata", "canonicalize", "exists",
               "try_exists", "read_link", "File::open")

FMT_ENTRY = "incan::format::formatter::Formatter::format"

# (function that writes the blank, literal) -> reason why a newline can never follow at run time
BLANK_EXEMPT = {
    ("format_import", "import "): "ImportPath.segments / module name is non-empty by parser construction "
                                  "(parser::import_path pushes at least one segment); the zero-iteration path of "
                                  "the loop is infeasible",
    ("format_import", " import "): "`from m import` always has at least one item (parser requires an identifier "
                                   "after `import`); zero-iteration loop path infeasible",
}


def is_fs_mutator(n):
    if not n or not (n.startswith("std::fs::") or n.startswith("std::fs::File") or "std::fs::OpenOptions" in n):
        return False
    tail = n[len("std::fs::"):]
    if tail in FS_READONLY or tail.startswith("File::open") or tail.startswith("<") or "Metadata" in tail:
        return False
    if tail.startswith("DirEntry") or tail.startswith("ReadDir") or tail.startswith("FileType"):
        return False
    return True


def bool_edges(f, arg_local, value):
    """CFG edges taken when boolean `arg_local` == value."""
    locs = derived_locals(f, arg_local)
    # `!x` temporaries flip polarity
    neg = set()
    for b in f.blocks:
        for s in b["st"]:
            if s["s"] == "assign" and s["rv"]["r"] == "un" and s["rv"]["op"] == "Not" and not s["d"]["p"]:
                p = op_place(s["rv"]["o"])
                if p is not None and not p["p"] and p["l"] in locs:
                    neg.add(s["d"]["l"])
    edges = []
    for bi, b in enumerate(f.blocks):
        t = b["term"]
        if t["t"] != "switch" or t["ty"] != "bool":
            continue
        p = op_place(t["on"])
        if p is None or p["p"]:
            continue
        if p["l"] in locs:
            want = value
        elif p["l"] in neg:
            want = not value
        else:
            continue
        false_t = [tg for v, tg in t["targets"] if v == "0"]
        true_t = t["otherwise"]
        if want:
            edges.append((bi, true_t))
        else:
            edges.extend((bi, x) for x in false_t)
    return edges


def run(facts, rep, tier):
    F = facts["default"]
    rep.assumptions += ["std::fs functions outside the read-only list mutate the filesystem",
                        "run-time strings written by the formatter are non-empty and do not end in a blank"]
    ff = F.one_fn("cli::commands::format_files")
    if rep.anchor("READONLY", "cli::commands::format_files", ff):
        rep.functions.add(ff.path)
        muts = [(bi, t) for bi, t in ff.calls() if is_fs_mutator(callee_name(t) or "")]
        rep.floor("READONLY", "filesystem mutators in format_files", len(muts), 1)
        # arguments: 1 = path, 2 = check_mode, 3 = diff_mode
        names = {l: n for n, l in ((n, pl["l"]) for n, pl in ff.dbg if not pl["p"])}
        modes = [l for l in range(1, ff.argc + 1) if ff.local_ty(l) == "bool"]
        rep.floor("READONLY", "boolean mode parameters of format_files", len(modes), 2)
        for i, (bi, t) in enumerate(muts):
            cn = (callee_name(t) or "").split("::")[-1]
            for m in modes:
                dom = set()
                for (a, b) in bool_edges(ff, m, False):
                    dom |= blocks_dominated_by_edge(ff, a, b)
                ok = bi in dom
                inst = "format_files:%s#%d:!%s" % (cn, i + 1, ff.name_of(m))
                rep.oblige("READONLY", inst, ok, sample={"rule": "READONLY", "mutator": callee_name(t),
                                                         "line": t.get("ln"), "guard": "!" + ff.name_of(m),
                                                         "dominated": ok})
                rep.call_sites += 1
                if not ok:
                    rep.add(Finding("READONLY", "READONLY|format_files|%s|%s" % (cn, ff.name_of(m)),
                                    "%s in format_files is not dominated by the `%s == false` edge: `incan fmt "
                                    "--%s` can modify files" % (callee_name(t), ff.name_of(m),
                                                                "check" if "check" in ff.name_of(m) else "diff"),
                                    file=ff.file, line=t.get("ln"), fn=ff.path))
        # any *other* function reachable from format_files that mutates, outside the guarded region
        for entry in ("incan::format::format_source", "incan::format::check_formatted", "incan::format::format_diff",
                      "incan::format::format_source_with_config"):
            if not rep.anchor("READONLY", entry, F.fn(entry)):
                continue
            clo = F.closure([entry])
            rep.functions.update(clo)
            bad = []
            for p in clo:
                for bi, t in F.fns[p].calls():
                    if is_fs_mutator(callee_name(t) or ""):
                        bad.append((p, t))
            rep.oblige("READONLY", "pure:" + entry.split("::")[-1], not bad,
                       sample={"rule": "READONLY", "entry": entry, "functions": len(clo), "fs_mutators": len(bad)})
            for (p, t) in bad:
                rep.add(Finding("READONLY", "READONLY|%s|%s" % (entry.split("::")[-1], callee_name(t)),
                                "%s (reachable from %s) mutates the filesystem: the read-only formatting API "
                                "writes files" % (callee_name(t), entry), file=F.fns[p].file, line=t.get("ln"), fn=p))
        # helper functions called from format_files (other than the guarded site) must not mutate either
        for bi, t in ff.calls():
            n = callee_name(t)
            if n and n in F.fns and n.startswith("incan::") and not n.startswith("incan::format::"):
                clo = F.closure([n])
                for p in clo:
                    for b2, t2 in F.fns[p].calls():
                        if is_fs_mutator(callee_name(t2) or ""):
                            rep.add(Finding("READONLY", "READONLY|format_files-helper|%s|%s"
                                            % (n.split("::")[-1], callee_name(t2)),
                                            "helper %s called from format_files reaches %s outside the mode guard"
                                            % (n, callee_name(t2)), file=F.fns[p].file, line=t2.get("ln"), fn=p))
        samecmp(F, rep, ff, muts)

    # 3/4 typestate
    if not rep.anchor("TAIL", FMT_ENTRY, F.fn(FMT_ENTRY)):
        return
    fm = F.closure([FMT_ENTRY])
    paths = [p for p in fm if p.startswith("incan::format::formatter")]
    rep.functions.update(fm)
    ls = LineState(F, paths)
    rounds = ls.solve([FMT_ENTRY], [("E",)])
    rep.notes.append("LINESTATE fixpoint in %d rounds over %d functions, %d (function, entry-state) summaries"
                     % (rounds, len(paths), sum(len(v) for v in ls.summary.values())))
    exits = ls.summary[FMT_ENTRY][("E",)]
    rep.floor("TAIL", "exit states of Formatter::format", len(exits), 1)
    # finish() is called in Formatter::format; its in-state is the program formatter's exit state
    fin_states = set()
    f0 = F.fn(FMT_ENTRY)
    for bi, t in f0.calls():
        if (callee_name(t) or "").endswith("FormatWriter::finish"):
            fin_states |= ls.call_states.get((FMT_ENTRY, bi), set())
    rep.anchor("TAIL", "call of FormatWriter::finish in Formatter::format", fin_states)
    for s in sorted(fin_states):
        ok = s[0] == "N1"
        rep.oblige("TAIL", "finish@" + "@".join(s[:2] if s[0] == "N2" else s[:1]), ok, sample={"rule": "TAIL", "state_at_finish": s[0]})
        if not ok:
            what = {"N2": "two or more newlines (a blank line at end of file)", "M": "no final newline",
                    "MS": "a trailing blank and no final newline", "E": "nothing at all"}.get(s[0], s[0])
            via = " (blank line produced by a newline in %s)" % s[1] if s[0] == "N2" else ""
            rep.add(Finding("TAIL", "TAIL|finish|%s" % "|".join(s[:2] if s[0] == "N2" else s[:1]),
                            "the writer can reach finish() with output ending in %s%s; the property requires exactly "
                            "one final newline" % (what, via), file=f0.file, line=f0.line, fn=FMT_ENTRY))
    for (ofn, text), (nfn, ln) in sorted(ls.newline_in_MS.items()):
        short_fn = ofn.split("::")[-1]
        inst = "%s:%r" % (short_fn, text)
        if (short_fn, text) in BLANK_EXEMPT:
            rep.oblige("BLANKS", inst, True)
            rep.exempt("BLANKS", inst, BLANK_EXEMPT[(short_fn, text)])
            continue
        rep.oblige("BLANKS", inst, False, sample={"rule": "BLANKS", "literal": text, "written_in": ofn,
                                                  "newline_in": nfn, "line": ln})
        rep.add(Finding("BLANKS", "BLANKS|%s|%r" % (short_fn, text),
                        "a newline can be written directly after the literal %r (written in %s): the line ends in "
                        "trailing whitespace" % (text, short_fn), file=F.fns[nfn].file, line=ln, fn=nfn))
    # count the literal writes examined, for the evidence
    n_lit = 0
    for p in paths:
        f = F.fns[p]
        for bi, t in f.calls():
            n = callee_name(t) or ""
            if n.endswith("FormatWriter::write") or n.endswith("FormatWriter::writeln"):
                n_lit += 1
                v = ls.const_arg(f, t["args"][1])
                if v is not None:
                    ok = "\t" not in v
                    rep.oblige("BLANKS", "no-tab:%s:%r" % (p.split("::")[-1], v), ok, nontrivial=True)
                    if not ok:
                        rep.add(Finding("BLANKS", "BLANKS|tab|%s|%r" % (p.split("::")[-1], v),
                                        "the formatter writes a literal containing a tab", file=f.file,
                                        line=t.get("ln"), fn=p))
    rep.call_sites += n_lit
    rep.floor("BLANKS", "writer calls in the formatter", n_lit, 200)


def samecmp(F, rep, ff, muts):
    """The rewrite and the --check verdict hang off the same `source != formatted` comparison."""
    cmp_locals = []
    for bi, t in ff.calls():
        n = callee_generic(t) or ""
        if n.endswith("PartialEq::ne") or n.endswith("PartialEq::eq"):
            if not t["d"]["p"]:
                cmp_locals.append((t["d"]["l"], n.endswith("::ne"), t))
    if not rep.anchor("SAMECMP", "source != formatted comparison in format_files", cmp_locals):
        return
    # sites that must be gated: fs mutators and every `needs_formatting = true`
    gated = [(bi, "rewrite:" + (callee_name(t) or "").split("::")[-1]) for bi, t in muts]
    for bi, b in enumerate(ff.blocks):
        for s in b["st"]:
            if s["s"] == "assign" and not s["d"]["p"] and ff.name_of(s["d"]["l"]) == "needs_formatting" \
                    and s["rv"]["r"] == "use" and s["rv"]["o"].get("c") == "true":
                gated.append((bi, "verdict:needs_formatting"))
    rep.floor("SAMECMP", "gated sites (rewrite + verdict)", len(gated), 3)
    ok_all = False
    for (cl, is_ne, t) in cmp_locals:
        dom = set()
        for (a, b) in bool_edges(ff, cl, is_ne):
            dom |= blocks_dominated_by_edge(ff, a, b)
        if all(bi in dom for bi, _ in gated):
            ok_all = True
    for bi, what in gated:
        rep.oblige("SAMECMP", what + "@bb%d" % bi, ok_all, sample={"rule": "SAMECMP", "site": what,
                                                                  "gated_by_single_comparison": ok_all})
    if not ok_all:
        rep.add(Finding("SAMECMP", "SAMECMP|format_files|changed",
                        "the file rewrite and the --check/--diff verdict are not all dominated by the same "
                        "`source != formatted` comparison: `fmt --check` can disagree with what `fmt` rewrites",
                        file=ff.file, line=ff.line, fn=ff.path))
