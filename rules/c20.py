"""C20 — derived JSON, equality, ordering and hashing are structural and round-trip (DESIGN.md §4 C20).

Round trip and structural equality for all values are delegated to serde / the std derives (trusted base) and are
NOT decided. Decided structural clauses (each necessary for the delegation to be faithful):
  1 DERIVES     every derive name the checker accepts resolves to a derive macro in scope of the generated file
                (shared table with C02) and the serde pair is emitted as serde::{Serialize, Deserialize}
  2 PREREQ      extract_derives closes the derive set under prerequisites: Eq => PartialEq;
                Ord => PartialOrd, Eq, PartialEq (decision table by constant propagation over its MIR)
  3 FIELDORDER  struct fields reach the emitter in declaration order: no hash-container iteration between the
                declaration and `struct { .. }`, and inherited fields are collected root-first
  4 NOATTR      the struct/enum templates attach no serde field/container attribute (rename, skip*, flatten, tag,
                default, with ...): JSON has exactly the declared field names and Option maps to value-or-null
  5 JSONLINK    to_json / from_json / json_stringify templates link serde_json::{to_string, from_str} and the
                canonical error helpers
"""
import c02
from engines import (AST, IR, all_string_constants, body_and_closures, callee_generic, callee_name, const_str,
                     discr_switches, op_place, quote_paths, quote_token_events)
from harness import Finding, Report
from mireval import Evaluator, OutOfFragment, UNKNOWN, boolean, enum, opt_none, opt_some

CONFIGS = {"quick": ["default", "stdlib_web"], "thorough": ["default", "stdlib_web"]}

EXPLANATION = (
    "Static analysis of derive handling in lowering and emission. (1) derive ids of the registry vs derive macros in "
    "scope of the generated file; (2) exhaustive table of extract_derives over single-derive inputs by constant "
    "propagation (Vec/iterator operations modelled), compared with the prerequisite closure std requires; (3) "
    "type-resolved scan for hash-container iteration in lower_model/lower_class/emit_struct and an order rule for "
    "collect_inherited_fields (ancestors before own fields); (4) token scan of the struct/enum templates for serde "
    "attributes; (5) template paths of the JSON helpers. serde's and the std derives' own behaviour (round trip, "
    "lexicographic Ord, Hash/Eq consistency) is the trusted base.")

DERIVE = "incan_core::lang::derives::DeriveId"
SERDE_ATTR_WORDS = {"rename", "rename_all", "skip", "skip_serializing", "skip_serializing_if", "skip_deserializing",
                    "flatten", "alias", "with", "tag", "untagged", "transparent", "deny_unknown_fields",
                    "serialize_with", "deserialize_with", "content", "remote", "bound", "getter"}


def run(facts, rep, tier):
    F = facts["default"]
    R = facts.get("stdlib_web")
    rep.assumptions += ["serde / serde_json and the std derives behave as documented (trusted base)",
                        "rustc nightly MIR describes the program the stable toolchain builds"]
    sub = Report("C20")
    c02.derives(F, R, sub)
    for f in sub.findings:
        rep.add(f)
    rep.obligations += sub.obligations
    rep.evaluations += sub.evaluations
    rep.discharged += sub.discharged
    rep.nontrivial |= sub.nontrivial
    rep.samples += sub.samples[:6]
    rep.rules += sub.rules
    rep.notes += sub.notes
    prereq(F, rep)
    fieldorder(F, rep)
    noattr(F, rep)
    jsonlink(F, rep)
    structshape(F, rep)


# ---------------------------------------------------------------------------------------------------------------
def prereq(F, rep):
    f = F.one_fn("AstLowering>::extract_derives")
    if not rep.anchor("PREREQ", "extract_derives", f):
        return
    rep.functions.add(f.path)
    DEC = AST + "Decorator"
    names = [v["name"] for v in F.adts[DERIVE]["variants"]]

    def s(x):
        return ("str", '"%s"' % x)

    def hook(name, gen, args, t, ev):
        last = gen.split("::")[-1]
        a0 = ev.deref_all(args[0]) if args else None
        if name.endswith("lang::decorators::from_str"):
            return opt_some(enum("incan_core::lang::decorators::DecoratorId", "Derive")) \
                if a0 and a0[0] == "str" and a0[1] == '"derive"' else opt_none()
        if name.endswith("lang::derives::as_str"):
            return s(a0[2]) if a0 and a0[0] == "enum" else UNKNOWN
        if name.endswith("lang::derives::from_str"):
            if a0 and a0[0] == "str" and a0[1].strip('"') in names:
                return opt_some(enum(DERIVE, a0[1].strip('"')))
            return opt_none()
        if last == "new" and "Vec" in gen:
            return ("list", [])
        if last == "push" and a0 is not None and a0[0] == "list":
            a0[1].append(ev.deref_all(args[1]))
            return ("tuple", ())
        if last in ("into_iter", "iter") and a0 is not None and a0[0] in ("list", "vec"):
            return ("iter", list(a0[1]))
        if last == "next" and a0 is not None and a0[0] == "iter":
            return opt_some(a0[1].pop(0)) if a0[1] else opt_none()
        if last == "any" and a0 is not None and a0[0] == "iter":
            clo = ev.deref_all(args[1])
            if clo[0] != "closure" or clo[2] not in ev.F.fns:
                return UNKNOWN
            hit = False
            for item in a0[1]:
                r = ev.run(ev.F.fns[clo[2]], [("ref", {0: clo}, {"l": 0, "p": []}),
                                              ("ref", {0: item}, {"l": 0, "p": []})], 1)
                if r[0] != "bool":
                    return UNKNOWN
                hit = hit or r[1]
            return boolean(hit)
        if last in ("as_str", "clone", "to_string", "to_owned", "deref", "as_slice"):
            return a0
        if last in ("eq", "ne") and len(args) == 2:
            x, y = ev.deref_all(args[0]), ev.deref_all(args[1])
            if x[0] == "str" and y[0] == "str":
                return boolean((x[1] == y[1]) == (last == "eq"))
        return None

    def decorators_for(derive_names):
        argv = [enum(AST + "DecoratorArg", "Positional", [
            ("struct", AST + "Spanned", {"node": enum(AST + "Expr", "Ident", [s(n)]), "span": UNKNOWN})])
            for n in derive_names]
        deco = ("struct", DEC, {"name": s("derive"), "args": ("vec", tuple(argv))})
        return ("vec", (("struct", AST + "Spanned", {"node": deco, "span": UNKNOWN}),))

    want_extra = {"Eq": {"PartialEq"}, "Ord": {"PartialOrd", "Eq", "PartialEq"}}
    n = 0
    for d in names:
        if d == "Validate":
            continue
        n += 1
        try:
            res = Evaluator(F, call_hook=hook).run(f, [UNKNOWN, ("ref", {0: decorators_for([d])}, {"l": 0, "p": []})])
            got = sorted(x[1].strip('"') for x in res[1]) if res[0] == "list" else "undecided(%s)" % (res[0],)
        except OutOfFragment as e:
            got = "out-of-fragment: %s" % str(e)[:80]
        want = sorted({d} | want_extra.get(d, set()))
        ok = got == want
        rep.oblige("PREREQ", "derive(%s)" % d, ok, sample={"rule": "PREREQ", "input": [d], "derive_list": got,
                                                           "required": want})
        if not ok:
            rep.add(Finding("PREREQ", "PREREQ|extract_derives|%s" % d,
                            "extract_derives([%s]) = %s, but the Rust derive needs %s: `@derive(%s)` alone does not "
                            "build (missing prerequisite) or derives more than declared" % (d, got, want, d),
                            file=f.file, line=f.line, fn=f.path))
    rep.floor("PREREQ", "derive ids tabulated", n, 10)
    rep.exhaustive_tables.append({"table": "extract_derives (single-derive inputs)", "cells": n})


# ---------------------------------------------------------------------------------------------------------------
def fieldorder(F, rep):
    import c12
    fns = []
    for suf in ("AstLowering>::lower_model", "AstLowering>::lower_class", "AstLowering>::collect_inherited_fields",
                "IrEmitter<'a>>::emit_struct", "IrEmitter<'a>>::emit_enum"):
        f = F.one_fn(suf)
        if rep.anchor("FIELDORDER", suf, f):
            fns.append(f)
    for f in fns:
        rep.functions.add(f.path)
        bad = []
        for p in body_and_closures(F, f.path):
            g = F.fns[p]
            for bi, t in g.calls():
                fn = t["f"]
                if "indirect" in fn:
                    continue
                if fn["path"].split("::")[-1] in c12.ITER_METHODS and c12.hash_self(fn.get("self", "")):
                    bad.append((p, t))
        short = f.path.split("::")[-1]
        rep.oblige("FIELDORDER", "no-hash-iteration:" + short, not bad,
                   sample={"rule": "FIELDORDER", "fn": f.path, "hash_iterations": len(bad)})
        for (p, t) in bad:
            rep.add(Finding("FIELDORDER", "FIELDORDER|%s|hash-iteration" % short,
                            "%s iterates a hash container (%s) while building the field list: declaration order — "
                            "and with it derived Ord and the JSON key order — is lost" % (short, fn.get("self", "")[:60]),
                            file=F.fns[p].file, line=t.get("ln"), fn=p))
    cif = F.one_fn("AstLowering>::collect_inherited_fields")
    if cif is not None:
        rec = [bi for bi, t in cif.calls() if (callee_name(t) or "") == cif.path]
        pushes = [bi for bi, t in cif.calls() if (callee_generic(t) or "").endswith("::push") and
                  "StructField" in t["f"].get("inst", "")]
        rev = any((callee_generic(t) or "").split("::")[-1] in ("reverse", "rev", "insert") for _, t in cif.calls())
        if rec:
            ok = bool(pushes) and not any(r in cif.reachable(p) for p in pushes for r in rec)
            why = "recursive: ancestors are collected before own fields" if ok else \
                "own fields can be pushed before the recursion into the parent"
        else:
            ok = rev
            why = "iterative with an explicit reversal" if ok else "iterative walk up the `extends` chain without " \
                                                                   "reversing: nearest ancestor first"
        rep.oblige("FIELDORDER", "inherited-root-first", ok, sample={"rule": "FIELDORDER", "fn": cif.path,
                                                                     "holds": ok, "how": why})
        if not ok:
            rep.add(Finding("FIELDORDER", "FIELDORDER|collect_inherited_fields|root-first",
                            "inherited fields are not collected root-first (%s): for a hierarchy three levels deep "
                            "the generated struct lists the parent's fields before the grandparent's, so derived "
                            "ordering compares fields in the wrong order and JSON keys are reordered" % why,
                            file=cif.file, line=cif.line, fn=cif.path))


# ---------------------------------------------------------------------------------------------------------------
def noattr(F, rep):
    n = 0
    for suf in ("IrEmitter<'a>>::emit_struct", "IrEmitter<'a>>::emit_enum"):
        f = F.one_fn(suf)
        if f is None:
            continue
        for p in body_and_closures(F, f.path):
            g = F.fns[p]
            idents = [t for (_, k, t, _) in quote_token_events(g) if k == "ident" and t]
            strs = [v for _, v in all_string_constants(g)]
            n += len(idents)
            bad = sorted(set(i for i in idents if i in SERDE_ATTR_WORDS))
            bad += [s for s in strs if "is_none" in s or "skip_serializing" in s or s.startswith("rename")]
            short = p.split("::")[-1] if "{closure" not in p else "::".join(p.split("::")[-2:])
            rep.oblige("NOATTR", short, not bad, sample={"rule": "NOATTR", "template_fn": p, "idents": len(idents),
                                                         "serde_attribute_words": bad})
            if bad:
                rep.add(Finding("NOATTR", "NOATTR|%s|%s" % (suf.split("::")[-1], bad[0]),
                                "the %s template attaches a serde attribute (%s): the JSON text no longer has exactly "
                                "the declared field names / the documented Option -> value-or-null mapping"
                                % (suf.split("::")[-1], ", ".join(bad)), file=g.file, line=g.line, fn=p))
    rep.floor("NOATTR", "identifier tokens in struct/enum templates", n, 20)


def jsonlink(F, rep):
    want = {
        "IrEmitter<'a>>::emit_impl": ["serde_json::to_string", "serde_json::from_str",
                                      "incan_stdlib::errors::raise_json_serialization_error",
                                      "incan_stdlib::errors::json_decode_error_string"],
        "IrEmitter<'a>>::emit_builtin_call": ["serde_json::to_string",
                                              "incan_stdlib::errors::raise_json_serialization_error"],
    }
    for suf, paths in want.items():
        f = F.one_fn(suf)
        if not rep.anchor("JSONLINK", suf, f):
            continue
        have = set()
        for p in body_and_closures(F, f.path):
            for segs, ln in quote_paths(F.fns[p]):
                have.add("::".join(segs))
        for path in paths:
            ok = path in have
            rep.oblige("JSONLINK", "%s:%s" % (suf.split("::")[-1], path), ok,
                       sample={"rule": "JSONLINK", "template_fn": suf, "path": path, "present": ok})
            if not ok:
                rep.add(Finding("JSONLINK", "JSONLINK|%s|%s" % (suf.split("::")[-1], path),
                                "%s no longer emits `%s` for the JSON helpers" % (suf.split("::")[-1], path),
                                file=f.file, line=f.line, fn=f.path))


# ---------------------------------------------------------------------------------------------------------------
def structshape(F, rep):
    """SHAPE — a model / class is emitted as a braced struct (`struct N { .. }`, JSON object) unless ALL its fields are
    positional; `all()` over NO fields is vacuously true, so the positional test has to be guarded by a non-emptiness
    test of the same field list — otherwise a field-less model becomes `struct N();` and serialises as `[]` instead
    of `{}`."""
    from engines import callee_generic, op_place, blocks_dominated_by_edge
    from c09 import bool_edges
    f = F.one_fn("IrEmitter<'a>>::emit_struct")
    if not rep.anchor("SHAPE", "IrEmitter::emit_struct", f):
        return

    def from_fields(pl):
        cur = pl
        for _ in range(8):
            if any(e[0] == "f" and e[1].endswith("IrStruct") and e[3] == "fields" for e in cur["p"]):
                return True
            d = f.single_def(cur["l"])
            if d is None:
                return False
            if d[2] == "call" and d[3]["args"]:
                nx = op_place(d[3]["args"][0])
            elif d[2] == "assign" and d[3]["r"] in ("ref", "cfd"):
                nx = d[3]["p"]
            elif d[2] == "assign" and d[3]["r"] in ("use", "cast"):
                nx = op_place(d[3]["o"])
            else:
                return False
            if nx is None:
                return False
            cur = nx
        return False

    alls = [(bi, t) for bi, t in f.calls() if (callee_generic(t) or "").endswith("Iterator::all") and t["args"] and
            op_place(t["args"][0]) is not None and from_fields(op_place(t["args"][0]))]
    if not alls:
        rep.notes.append("SHAPE: emit_struct does not decide the struct shape with Iterator::all over the fields; "
                         "clause not decided")
        return
    nonempty = set()
    for bi, t in f.calls():
        g = callee_generic(t) or ""
        if g.endswith("::is_empty") and t["args"] and op_place(t["args"][0]) is not None and \
                from_fields(op_place(t["args"][0])) and not t["d"]["p"]:
            for (a, b) in bool_edges(f, t["d"]["l"], False):
                nonempty |= blocks_dominated_by_edge(f, a, b)
    for i, (bi, t) in enumerate(alls):
        ok = bi in nonempty
        rep.oblige("SHAPE", "emit_struct:all#%d-under-nonempty" % (i + 1), ok,
                   sample={"rule": "SHAPE", "line": t.get("ln"), "guarded_by_not_is_empty": ok})
        if not ok:
            rep.add(Finding("SHAPE", "SHAPE|emit_struct|vacuous-all",
                            "emit_struct decides `tuple struct` with `fields.iter().all(..)` on a path where the field "
                            "list may be empty: `all` over no fields is true, so a field-less model is emitted as "
                            "`struct N();` and serialises as `[]` instead of the documented object `{}`",
                            file=f.file, line=t.get("ln"), fn=f.path))
