"""Check harness: fact freshness, known-finding matching, evidence writing, exit status."""
import fcntl
import hashlib
import json
import os
import subprocess
import sys
import time

VERIF = os.path.dirname(os.path.dirname(os.path.abspath(__file__)))
REPO = os.environ.get("VERIF_REPO", "/repo")
CACHE = os.path.join(VERIF, ".cache")
# nested runs of the sensitivity self-test analyse a scratch copy: they get their own fact cache and evidence directory so
# that the facts and the evidence of the real tree are never overwritten
CACHE_NS = os.environ.get("VERIF_CACHE_NS", "")
EVIDENCE_DIR = os.environ.get("VERIF_EVIDENCE_DIR") or os.path.join(VERIF, "evidence")


def repo_hash():
    """Content hash of everything the build reads: *.rs, Cargo.toml, Cargo.lock (target/ and .git excluded),
    plus the fact extractor's own source (a changed driver invalidates cached facts)."""
    h = hashlib.sha256()
    for drv in ("tools/factdrv/src/main.rs", "tools/extract.sh"):
        try:
            with open(os.path.join(VERIF, drv), "rb") as fh:
                h.update(fh.read())
        except OSError:
            pass
    paths = []
    for root, dirs, files in os.walk(REPO):
        dirs[:] = sorted(d for d in dirs if d not in ("target", ".git", "node_modules"))
        for f in sorted(files):
            if f.endswith(".rs") or f in ("Cargo.toml", "Cargo.lock"):
                paths.append(os.path.join(root, f))
    for p in paths:
        h.update(p.encode())
        try:
            with open(p, "rb") as fh:
                h.update(fh.read())
        except OSError:
            h.update(b"<unreadable>")
    return h.hexdigest()


def ensure_facts(config="default"):
    """Make sure .cache/facts/<config> holds facts extracted from /repo's *current* working tree."""
    os.makedirs(CACHE, exist_ok=True)
    out = os.path.join(CACHE, "facts" + ("-" + CACHE_NS if CACHE_NS else ""), config)
    os.makedirs(out, exist_ok=True)
    lock = open(os.path.join(CACHE, "facts%s-%s.lock" % (CACHE_NS, config)), "w")
    fcntl.flock(lock, fcntl.LOCK_EX)
    try:
        want = repo_hash()
        stamp = os.path.join(out, "STAMP")
        have = None
        if os.path.exists(stamp):
            try:
                have = json.load(open(stamp))
            except Exception:
                have = None
        if have and have.get("hash") == want and _nonce_ok(out, have.get("nonce")):
            return out, have
        if os.path.exists(stamp):
            os.remove(stamp)
        nonce = "%s-%d" % (want[:16], int(time.time() * 1000))
        t0 = time.time()
        rc = subprocess.call([os.path.join(VERIF, "tools", "extract.sh"), config, out, nonce])
        if rc != 0:
            print("FATAL: fact extraction failed for config %s (the tree does not build with the nightly driver)"
                  % config)
            sys.exit(2)
        if not _nonce_ok(out, nonce):
            print("FATAL: fact files missing or stale after extraction (nonce mismatch)")
            sys.exit(2)
        info = {"hash": want, "nonce": nonce, "extract_s": round(time.time() - t0, 1)}
        json.dump(info, open(stamp, "w"))
        return out, info
    finally:
        fcntl.flock(lock, fcntl.LOCK_UN)
        lock.close()


REQUIRED_CRATES = {
    "default": ["incan", "incan_core", "incan_syntax", "incan_stdlib", "incan_derive", "incan_lsp"],
    "stdlib_json": ["incan_stdlib"],
    "stdlib_web": ["incan_stdlib"],
}


def _nonce_ok(out, nonce):
    import glob
    seen = set()
    for f in glob.glob(os.path.join(out, "*.jsonl")):
        with open(f) as fh:
            first = fh.readline()
        try:
            r = json.loads(first)
        except Exception:
            return False
        if r.get("nonce") != nonce:
            return False
        seen.add(r.get("name"))
    cfg = os.path.basename(out)
    return all(c in seen for c in REQUIRED_CRATES.get(cfg, []))


class Finding:
    def __init__(self, rule, key, msg, file=None, line=None, fn=None):
        self.rule = rule
        self.key = key  # position-free: rule|function|instance
        self.msg = msg
        self.file = file
        self.line = line
        self.fn = fn

    def to_json(self):
        return {"rule": self.rule, "key": self.key, "msg": self.msg, "file": self.file, "line": self.line,
                "fn": self.fn}

    def where(self):
        if self.file:
            return "%s:%s" % (self.file, self.line)
        return "?"


class Report:
    """Collected by a property driver; turned into stdout lines + evidence + exit status."""

    def __init__(self, pid):
        self.pid = pid
        self.findings = []
        self.obligations = 0
        self.discharged = 0
        self.evaluations = 0
        self.nontrivial = set()
        self.samples = []
        self.rules = []  # {rule, instances, matched, floor, note}
        self.functions = set()
        self.call_sites = 0
        self.exemptions = []
        self.assumptions = []
        self.notes = []
        self.exhaustive_tables = []
        self._per_rule = {}

    # a rule instance was evaluated; ok => discharged
    def oblige(self, rule, instance, ok, sample=None, nontrivial=True):
        self.obligations += 1
        self.evaluations += 1
        if ok:
            self.discharged += 1
        if nontrivial:
            self.nontrivial.add((rule, instance))
        if sample is not None:
            c = self._per_rule.get(rule, 0)
            if c < 6:
                self._per_rule[rule] = c + 1
                self.samples.append(sample)

    def add(self, finding):
        # de-dup on key
        for f in self.findings:
            if f.key == finding.key:
                return
        self.findings.append(finding)

    def floor(self, rule, what, count, minimum):
        """Fail closed when a rule no longer sees the code it was written for."""
        self.rules.append({"rule": rule, "what": what, "instances": count, "floor": minimum})
        if count < minimum:
            self.add(Finding(rule, "%s|rule-vacuous|%s" % (rule, what),
                             "rule-vacuous: %s: saw %d instance(s), confirmed floor is %d — the rule no longer "
                             "sees the code it was written for" % (what, count, minimum)))

    def anchor(self, rule, what, obj):
        if obj is None or obj == [] or obj == set():
            self.add(Finding(rule, "%s|missing-anchor|%s" % (rule, what),
                             "missing anchor: %s — cannot decide the rule; failing closed" % what))
            return False
        return True

    def exempt(self, rule, instance, reason):
        self.exemptions.append({"rule": rule, "instance": instance, "reason": reason})


def load_known():
    p = os.path.join(VERIF, "known_findings.json")
    if not os.path.exists(p):
        return {"findings": [], "fixed": []}
    return json.load(open(p))


def finish(report, tier, t0, level="other", explanation="", extra_cov=None):
    pid = report.pid
    known = load_known()
    known_keys = {}
    for k in known.get("findings", []):
        if k["property"] == pid:
            known_keys[k["key"]] = k
    new = []
    listed = []
    for f in report.findings:
        if f.key in known_keys:
            listed.append(f)
        else:
            new.append(f)
    for f in listed:
        print("KNOWN-FINDING: property=%s %s [%s] %s" % (pid, f.where(), f.key, known_keys[f.key].get("what", f.msg)))
    # listed findings that no longer fire are only mentioned (the file is never modified at run time)
    fired = {f.key for f in report.findings}
    for k in known_keys:
        if k not in fired:
            print("note: listed finding no longer fires: %s" % k)
    replay_dir = os.path.join(EVIDENCE_DIR, "replay", pid)
    rc = 0
    if new:
        os.makedirs(replay_dir, exist_ok=True)
        for f in new:
            hid = hashlib.sha1(f.key.encode()).hexdigest()[:12]
            rp = os.path.join(replay_dir, hid + ".json")
            json.dump(f.to_json(), open(rp, "w"), indent=1)
            print("%s %s rule=%s instance=%s" % (f.where(), f.fn or "-", f.rule, f.key))
            print("    " + f.msg)
            print("VIOLATION property=%s replay=%s" % (pid, rp))
        rc = 1
    cov = {
        "explanation": explanation,
        "evaluations": report.evaluations,
        "distinct_nontrivial": len(report.nontrivial),
        "rule": "one evaluation = one rule instance (a (rule, construct) pair found in the resolved program: a "
                "field of a node type, a call site, a match arm, a table cell, a kernel branch); non-trivial = "
                "the instance matched a real construct in /repo's MIR (distinct (rule, instance) pairs)",
        "obligations": report.obligations,
        "discharged": report.discharged,
        "functions_analysed": len(report.functions),
        "call_sites": report.call_sites,
        "rules": report.rules,
        "samples": report.samples[:80],
        "exemptions": report.exemptions,
        "known_findings_matched": [f.key for f in listed],
        "new_findings": [f.to_json() for f in new],
        "notes": report.notes,
        "checker_cmd": "./check %s --tier %s" % (pid, tier),
        "trusted_base": ["rustc nightly mir_built + Instance::try_resolve", "factdrv fact serialisation",
                         "python rule engines in /verif/rules"],
    }
    if report.exhaustive_tables:
        cov["exhaustive"] = True
        cov["exhaustive_tables"] = report.exhaustive_tables
    if extra_cov:
        cov.update(extra_cov)
    ev = {
        "property_id": pid,
        "tier": tier,
        "seed": int(os.environ.get("VERIF_SEED", "0") or 0),
        "level": level,
        "coverage": cov,
        "assumptions": report.assumptions,
        "wall_s": round(time.time() - t0, 2),
        "violations": len(new),
    }
    os.makedirs(EVIDENCE_DIR, exist_ok=True)
    tmp = os.path.join(EVIDENCE_DIR, ".%s.json.tmp%d" % (pid, os.getpid()))
    json.dump(ev, open(tmp, "w"), indent=1)
    os.replace(tmp, os.path.join(EVIDENCE_DIR, "%s.json" % pid))
    print("%s: %d rule instances, %d discharged, %d known finding(s), %d new violation(s), %d functions, %.1fs"
          % (pid, report.obligations, report.discharged, len(listed), len(new), len(report.functions),
             time.time() - t0))
    return rc
