"""C12 — compilation is deterministic (DESIGN.md §4 C12).

Run-to-run byte equality is decided through its only sources:
  1 HASHORDER  no iteration over a HashMap/HashSet in the closure of the compile/check/format/LSP entry points
               reaches output or diagnostics in hash order. A site is discharged when (a) its items are collected
               and sorted before use, (b) its consumer is order-insensitive, (c) the loop body only touches
               order-insensitive sinks, or (d) it is in the reviewed table below (one site, one reason).
  2 NONDET     no other nondeterminism source (clock, pid, random state, environment, threads, cwd) is reachable
               in that closure, except the reviewed ones.
"""
from collections import deque

from engines import callee_generic, callee_name, op_place
from harness import Finding

EXPLANATION = (
    "Type-resolved call-site analysis over the closure of every entry point that produces output bytes or "
    "diagnostics (check_file, emit_rust, build_file, run_file, format_files, lex_file, parse_file, the LSP "
    "analysis, IrCodegen/ProjectGenerator/format_source/TypeChecker public API). HASHORDER: every resolved call of "
    "HashMap/HashSet::{iter,iter_mut,keys,values,values_mut,into_iter,drain,into_keys,into_values,retain} and "
    "IntoIterator for (&)HashMap/HashSet is found by the Self type of the resolved instance and must be discharged "
    "by a recognised idiom (collect+sort; order-insensitive terminal such as any/all/count/sum/min/max or collect "
    "into another hash/B-tree container; loop body touching only order-insensitive sinks) or by the reviewed "
    "table; anything else is a finding. NONDET: callee-class scan for clocks, random state, process id, "
    "environment, threads and cwd in the same closure. The claim is that these are the only ways run-to-run "
    "differences can enter (no unsafe, no address-dependent code: #![forbid(unsafe_code)]).")

ENTRY_SUFFIXES = [
    "cli::commands::check_file", "cli::commands::emit_rust", "cli::commands::build_file",
    "cli::commands::run_file", "cli::commands::format_files", "cli::commands::lex_file",
    "cli::commands::parse_file", "cli::commands::collect_modules",
    "IncanLanguageServer::analyze_document", "IncanLanguageServer::collect_dependency_modules",
    "TypeChecker::check_with_imports", "TypeChecker::check_program",
    "IrCodegen::<'a>::try_generate", "IrCodegen::<'a>::try_generate_module",
    "IrCodegen::<'a>::try_generate_multi_file", "IrCodegen::<'a>::try_generate_multi_file_nested",
    "ProjectGenerator::generate", "ProjectGenerator::generate_multi", "ProjectGenerator::generate_nested",
    "incan::format::format_source", "incan::format::format_diff",
]

ITER_METHODS = ("iter", "iter_mut", "keys", "values", "values_mut", "into_iter", "drain", "into_keys",
                "into_values", "retain", "extract_if", "intersection", "union", "difference",
                "symmetric_difference")

ORDER_FREE_TERMINALS = ("::any", "::all", "::count", "::sum", "::min", "::max", "::min_by_key", "::max_by_key",
                        "::contains", "::product", "::is_empty", "::len")
ORDER_KEEPING_ADAPTERS = ("::map", "::filter", "::filter_map", "::cloned", "::copied", "::flat_map", "::flatten",
                          "::chain", "::enumerate", "::inspect", "::peekable", "::by_ref", "::into_iter",
                          "::iter", "::rev", "::skip", "::take", "::zip", "::map_while", "::take_while",
                          "::skip_while", "::step_by")
LOOP_BODY_ORDER_FREE = (
    "HashMap<", "HashSet<", "BTreeMap<", "BTreeSet<",  # container methods are judged by Self type below
)
LOOP_OK_CALLEE_TAILS = ("::clone", "::next", "::deref", "::deref_mut", "::as_str", "::as_ref", "::borrow",
                        "::to_string", "::to_owned", "::into", "::from", "::sort", "::sort_unstable", "::dedup",
                        "::sort_by", "::sort_by_key", "::is_empty", "::len", "::eq", "::ne", "::index",
                        "::into_iter", "::as_slice", "::as_mut_slice", "::drop", "::as_mut", "::borrow_mut")

# site key: "<fn short>|<method>#<ordinal>" -> reason (reviewed by reading; one site, one reason)
def _nested_sorted(F, f):
    """generate_nested: the per-directory submodule lists are sorted in a values_mut()/iter_mut() loop."""
    for bi, t in f.calls():
        fn = t["f"]
        if "indirect" in fn:
            continue
        if fn["path"].split("::")[-1] in ("values_mut", "iter_mut") and hash_self(fn.get("self", "")):
            v, how = classify_site(f, bi, t)
            if v == "loop-order-free" and loop_calls(f, bi, t, ("sort", "sort_unstable")):
                return True
    return False


# site -> machine-checked precondition of the reviewed reason (the reason is void when it no longer holds)
REVIEWED_REQUIRES = {
    "generate_nested|keys#1": _nested_sorted,
    "generate_nested|into_iter#1": _nested_sorted,
}

REVIEWED = {
    "emit_program|keys#1": "keys drive resolve_static_str_const, whose results land in a cache HashMap and are "
                           "looked up by name later; no output is produced in iteration order",
    "generate_multi|into_iter#1": "one fs::write per module to a path derived from the key; files are independent",
    "generate_nested|keys#1": "fills a HashSet and per-directory Vecs that are sorted+deduped (values_mut loop) "
                              "before any use",
    "generate_nested|into_iter#1": "one mod.rs per directory key, contents built from the sorted submodule list",
    "generate_nested|into_iter#2": "one fs::write per module to a path derived from the key; files are independent",
}

NONDET_CALLEES = (
    ("std::time::SystemTime::now", "wall clock"), ("std::time::Instant::now", "monotonic clock"),
    ("std::process::id", "process id"), ("std::thread::spawn", "thread schedule"),
    ("std::hash::random::RandomState::new", "per-process hash seed"),
    ("std::collections::hash::map::RandomState::new", "per-process hash seed"),
    ("std::env::var", "environment"), ("std::env::var_os", "environment"), ("std::env::vars", "environment"),
    ("std::env::vars_os", "environment"), ("std::env::current_dir", "working directory"),
    ("std::env::temp_dir", "environment"), ("std::env::args", "process arguments"),
    ("std::env::current_exe", "host state"), ("std::env::home_dir", "host state"),
)

# (function short name, callee) -> reason
_EMIT_SVC = ("INCAN_EMIT_SERVICE debug switch selects between IrEmitter and EmitService (a thin wrapper around the "
             "same IrEmitter); documented developer switch, not a data dependency of the output")
NONDET_REVIEWED = {
    ("try_generate_via_ir", "std::env::var"): _EMIT_SVC,
    ("try_generate_module", "std::env::var"): _EMIT_SVC,
    ("try_generate_multi_file_internal", "std::env::var"): _EMIT_SVC,
    ("try_generate_multi_file_nested_internal", "std::env::var"): _EMIT_SVC,
}


def hash_self(selfty):
    s = selfty
    while s.startswith("&"):
        s = s[1:].lstrip()
        if s.startswith("mut "):
            s = s[4:]
        if s.startswith("'"):
            s = s.split(" ", 1)[1] if " " in s else s
    return s.startswith("std::collections::hash::map::HashMap<") or \
        s.startswith("std::collections::hash::set::HashSet<") or \
        s.startswith("std::collections::HashMap<") or s.startswith("std::collections::HashSet<")


def fn_short(p):
    parts = p.split("::")
    out = []
    for x in reversed(parts):
        out.append(x)
        if not x.startswith("{"):
            break
    return "::".join(reversed(out))


def classify_site(f, bi, t):
    """-> (verdict, how). verdict in {'sorted','order-free','loop-order-free', None}."""
    if t["d"]["p"] or t["to"] is None:
        return None, "iterator result not held in a local"
    cur = {t["d"]["l"]}
    seen_blocks = set()
    # follow the iterator value through adapters
    for _ in range(24):
        nxt = None
        cur = holders_of(f, cur)
        for b2, t2 in f.calls():
            args = [op_place(o) for o in t2["args"]]
            if not any(a is not None and a["l"] in cur and all(e[0] == "deref" for e in a["p"]) for a in args):
                continue
            if (b2, id(t2)) in seen_blocks:
                continue
            n = (callee_generic(t2) or "")
            rn = callee_name(t2) or n
            if any(n.endswith(x) for x in ORDER_FREE_TERMINALS):
                return "order-free", "terminal %s" % n.split("::")[-1]
            if n.endswith("::collect") or n.endswith("FromIterator::from_iter") or n.endswith("::extend"):
                dest_ty = f.local_ty(t2["d"]["l"]) if not t2["d"]["p"] else ""
                tgt_ty = dest_ty
                if n.endswith("::extend"):
                    a0 = op_place(t2["args"][0])
                    tgt_ty = f.local_ty(a0["l"]) if a0 else ""
                if any(k in tgt_ty for k in ("HashMap<", "HashSet<", "BTreeMap<", "BTreeSet<")):
                    return "order-free", "collected into %s" % tgt_ty.split("<")[0].split("::")[-1]
                if "Vec<" in dest_ty:
                    v = t2["d"]["l"]
                    if vec_sorted_before_use(f, v):
                        return "sorted", "collected into a Vec that is sorted"
                    return None, "collected into a Vec that is never sorted"
                return None, "collected into %s" % dest_ty
            if n.endswith("Iterator::next") or n.endswith("::next"):
                # a `for` loop: judge the loop body
                ok, why = loop_body_order_free(f, b2)
                return ("loop-order-free" if ok else None), why
            if any(n.endswith(x) for x in ORDER_KEEPING_ADAPTERS) and not t2["d"]["p"]:
                seen_blocks.add((b2, id(t2)))
                nxt = t2["d"]["l"]
                break
            if n.endswith("::for_each") or n.endswith("::fold") or n.endswith("::find") or n.endswith("::position") \
                    or n.endswith("::last") or n.endswith("::nth") or n.endswith("::find_map") \
                    or n.endswith("::try_for_each") or n.endswith("::reduce"):
                return None, "order-sensitive terminal %s" % n.split("::")[-1]
        if nxt is None:
            # moved into another local?
            moved = None
            for b in f.blocks:
                for s in b["st"]:
                    if s["s"] == "assign" and not s["d"]["p"] and s["rv"]["r"] in ("use", "ref"):
                        p = op_place(s["rv"]["o"]) if s["rv"]["r"] == "use" else s["rv"]["p"]
                        if p is not None and p["l"] in cur and not p["p"] and s["d"]["l"] not in cur:
                            moved = s["d"]["l"]
            if moved is None:
                break
            cur.add(moved)
        else:
            cur = {nxt}
    return None, "consumer not recognised (returned or stored)"


def loop_calls(f, bi, t, names):
    """Does the `for` loop fed by the iterator created at (bi, t) call one of `names` in its body?"""
    cur = holders_of(f, {t["d"]["l"]})
    for _ in range(6):
        for b2, t2 in f.calls():
            args = [op_place(o) for o in t2["args"]]
            if not any(a is not None and a["l"] in cur for a in args):
                continue
            n = callee_generic(t2) or ""
            if n.endswith("::next"):
                preds = f.preds()
                fwd = f.reachable(b2)
                back = set()
                dq = deque([b2])
                while dq:
                    b = dq.popleft()
                    if b in back:
                        continue
                    back.add(b)
                    for p in preds[b]:
                        if p in fwd:
                            dq.append(p)
                for b in fwd & back:
                    tt = f.term(b)
                    if tt["t"] == "call" and (callee_generic(tt) or "").split("::")[-1] in names:
                        return True
                return False
            if n.endswith("::into_iter") and not t2["d"]["p"]:
                cur = holders_of(f, {t2["d"]["l"]})
    return False


def holders_of(f, roots):
    """Locals holding the value of `roots`, a move of it, or a reference to it."""
    holders = set(roots)
    changed = True
    while changed:
        changed = False
        for b in f.blocks:
            for s in b["st"]:
                if s["s"] == "assign" and not s["d"]["p"] and s["d"]["l"] not in holders:
                    rv = s["rv"]
                    p = None
                    if rv["r"] in ("ref", "cfd"):
                        p = rv["p"]
                    elif rv["r"] in ("use", "cast"):
                        p = op_place(rv["o"])
                    if p is not None and p["l"] in holders and all(e[0] == "deref" for e in p["p"]):
                        holders.add(s["d"]["l"])
                        changed = True
    return holders


def vec_sorted_before_use(f, v):
    """Is there a sort call on local v (through &mut / deref_mut) in this body?"""
    holders = {v}
    changed = True
    while changed:
        changed = False
        for b in f.blocks:
            for s in b["st"]:
                if s["s"] == "assign" and not s["d"]["p"] and s["d"]["l"] not in holders:
                    rv = s["rv"]
                    p = None
                    if rv["r"] in ("ref", "cfd"):
                        p = rv["p"]
                    elif rv["r"] in ("use", "cast"):
                        p = op_place(rv["o"])
                    if p is not None and p["l"] in holders and all(e[0] == "deref" for e in p["p"]):
                        holders.add(s["d"]["l"])
                        changed = True
            t = b["term"]
            if t["t"] == "call" and not t["d"]["p"] and t["d"]["l"] not in holders:
                n = callee_generic(t) or ""
                if n.endswith("::deref_mut") or n.endswith("::as_mut_slice") or n.endswith("::deref"):
                    a = op_place(t["args"][0]) if t["args"] else None
                    if a is not None and a["l"] in holders:
                        holders.add(t["d"]["l"])
                        changed = True
    for bi, t in f.calls():
        n = callee_generic(t) or ""
        last = n.split("::")[-1]
        if last in ("sort", "sort_unstable", "sort_by", "sort_by_key", "sort_unstable_by", "sort_unstable_by_key",
                    "sort_by_cached_key"):
            a = op_place(t["args"][0]) if t["args"] else None
            if a is not None and a["l"] in holders:
                return True
    return False


def loop_body_order_free(f, next_block):
    """The natural loop around the `next()` call: every call in it must be an order-insensitive sink."""
    succs = f.succs()
    preds = f.preds()
    # blocks that can reach next_block and are reachable from it
    fwd = f.reachable(next_block)
    back = set()
    dq = deque([next_block])
    while dq:
        b = dq.popleft()
        if b in back:
            continue
        back.add(b)
        for p in preds[b]:
            if p in fwd:
                dq.append(p)
    body = fwd & back
    bad = []
    for b in sorted(body):
        t = f.term(b)
        if t["t"] == "return":
            bad.append("early return")
        if t["t"] != "call":
            continue
        n = callee_generic(t) or ""
        selfty = t["f"].get("self", "")
        if any(k in selfty for k in ("HashMap<", "HashSet<", "BTreeMap<", "BTreeSet<")) or \
                any(k in n for k in ("hash::map::Entry", "hash_map::Entry", "btree_map::Entry")):
            continue
        if any(n.endswith(x) for x in LOOP_OK_CALLEE_TAILS):
            continue
        bad.append(n.split("::")[-1] if "indirect" not in t["f"] else "indirect call")
    # leaving the loop early (break with a value / `?`) also makes the result order-dependent
    if bad:
        return False, "loop body calls order-sensitive sinks: %s" % ", ".join(sorted(set(bad))[:6])
    return True, "loop body touches only order-insensitive sinks"


def run(facts, rep, tier):
    F = facts["default"]
    rep.assumptions += [
        "#![forbid(unsafe_code)] in the workspace crates: no address-dependent behaviour",
        "std HashMap/HashSet are the only containers with per-process iteration order used by the workspace",
        "the closure is computed over resolved callees; calls through fn pointers/trait objects are followed when "
        "the fn item appears as an operand in the body",
    ]
    entries = []
    for suf in ENTRY_SUFFIXES:
        fs = F.find_fns(suffix=suf) if not suf.startswith("incan::") else ([F.fn(suf)] if F.fn(suf) else [])
        fs = [f for f in fs if "{" not in f.path.split("::")[-1]]
        if not fs:
            rep.anchor("HASHORDER", "entry point " + suf, None)
        entries.extend(f.path for f in fs)
    clo = F.closure(entries, pred=lambda p: F.fns[p].crate in ("incan", "incan_syntax", "incan_core", "incan_lsp"))
    rep.functions.update(clo)
    rep.floor("HASHORDER", "functions in the output closure", len(clo), 900)

    sites = []
    for p in sorted(clo):
        f = F.fns[p]
        per = {}
        for bi, t in f.calls():
            fn = t["f"]
            if "indirect" in fn:
                continue
            last = fn["path"].split("::")[-1]
            if last not in ITER_METHODS:
                continue
            if not hash_self(fn.get("self", "")):
                continue
            per[last] = per.get(last, 0) + 1
            sites.append((p, f, bi, t, "%s|%s#%d" % (fn_short(p), last, per[last])))
    rep.floor("HASHORDER", "hash-iteration sites", len(sites), 12)
    rep.call_sites += len(sites)
    for (p, f, bi, t, key) in sites:
        verdict, how = classify_site(f, bi, t)
        sample = {"rule": "HASHORDER", "site": key, "file": f.file, "line": t.get("ln"),
                  "container": t["f"].get("self", "")[:80], "verdict": verdict or "unsorted", "how": how}
        if verdict:
            rep.oblige("HASHORDER", key, True, sample=sample)
            continue
        if key in REVIEWED and (key not in REVIEWED_REQUIRES or REVIEWED_REQUIRES[key](F, f)):
            rep.oblige("HASHORDER", key, True, sample=sample)
            rep.exempt("HASHORDER", key, REVIEWED[key])
            continue
        if key in REVIEWED:
            how = "reviewed reason no longer holds: " + REVIEWED[key]
        rep.oblige("HASHORDER", key, False, sample=sample)
        rep.add(Finding("HASHORDER", "HASHORDER|%s" % key,
                        "iteration over %s in per-process hash order is not sorted and its consumer is "
                        "order-sensitive (%s): output or diagnostics can differ between two runs on the same input"
                        % (t["f"].get("self", "a hash container")[:90], how), file=f.file, line=t.get("ln"), fn=p))

    # implicit iteration: a hash container handed to `extend` / `from_iter` is walked in hash order by the callee
    for p in sorted(clo):
        f = F.fns[p]
        per = 0
        for bi, t in f.calls():
            g = callee_generic(t) or ""
            last = g.split("::")[-1].split("<")[0]
            if last not in ("extend", "from_iter"):
                continue
            tys = [f.local_ty(op_place(o)["l"]) if op_place(o) is not None else "" for o in t["args"]]
            src = [ty for ty in tys[(1 if last == "extend" else 0):] if "HashSet<" in ty or "HashMap<" in ty]
            if not src:
                continue
            per += 1
            key = "%s|%s-from-hash#%d" % (fn_short(p), last, per)
            recv = tys[0] if last == "extend" else t["f"].get("self", "")
            unordered_sink = any(k in recv for k in ("HashMap<", "HashSet<", "BTreeMap<", "BTreeSet<"))
            sorted_after = False
            if not unordered_sink and last == "extend" and op_place(t["args"][0]) is not None:
                root = op_place(t["args"][0])["l"]
                d = f.single_def(root)
                if d and d[2] == "assign" and d[3]["r"] in ("ref", "cfd"):
                    root = d[3]["p"]["l"]
                for b2, t2 in f.calls():
                    if (callee_generic(t2) or "").split("::")[-1] in SORTS and b2 in f.reachable(bi) and t2["args"]:
                        pl2 = op_place(t2["args"][0])
                        r2 = pl2["l"] if pl2 is not None else None
                        for _ in range(3):
                            d2 = f.single_def(r2) if r2 is not None else None
                            if d2 and d2[2] == "assign" and d2[3]["r"] in ("ref", "cfd"):
                                r2 = d2[3]["p"]["l"]
                            elif d2 and d2[2] == "call" and d2[3]["args"] and op_place(d2[3]["args"][0]) is not None:
                                r2 = op_place(d2[3]["args"][0])["l"]
                            else:
                                break
                        if r2 == root:
                            sorted_after = True
            ok = unordered_sink or sorted_after
            rep.oblige("HASHORDER", key, ok, sample={"rule": "HASHORDER", "site": key, "file": f.file,
                                                     "line": t.get("ln"), "receiver": recv[:60],
                                                     "verdict": "order-insensitive sink" if unordered_sink else
                                                     ("sorted afterwards" if sorted_after else "unsorted")})
            if not ok:
                rep.add(Finding("HASHORDER", "HASHORDER|%s" % key,
                                "%s appends the elements of a hash container (%s) to an ordered sequence: their order "
                                "is per-process hash order, and everything that depends on the sequence's order "
                                "(first error reported, later entry wins) differs between runs"
                                % (fn_short(p), src[0][:70]), file=f.file, line=t.get("ln"), fn=p))

    # NONDET
    n_nd = 0
    for p in sorted(clo):
        f = F.fns[p]
        for bi, t in f.calls():
            n = callee_name(t) or ""
            g = callee_generic(t) or ""
            for (cal, what) in NONDET_CALLEES:
                if n == cal or g == cal or n.startswith(cal + "::<") or g.startswith(cal + "::<"):
                    n_nd += 1
                    k = (fn_short(p), cal)
                    inst = "%s|%s" % k
                    if k in NONDET_REVIEWED:
                        rep.oblige("NONDET", inst, True, sample={"rule": "NONDET", "site": inst, "file": f.file,
                                                                 "line": t.get("ln"), "admitted": True})
                        rep.exempt("NONDET", inst, NONDET_REVIEWED[k])
                        continue
                    rep.oblige("NONDET", inst, False, sample={"rule": "NONDET", "site": inst, "file": f.file,
                                                              "line": t.get("ln")})
                    rep.add(Finding("NONDET", "NONDET|%s" % inst,
                                    "%s (%s) is reachable from the compile/check/format entry points: output can "
                                    "depend on it" % (cal, what), file=f.file, line=t.get("ln"), fn=p))
    readdir(F, rep, clo)
    sorttotal(F, rep, clo)
    outstate(F, rep)
    rep.notes.append("NONDET: %d call(s) to listed nondeterminism sources inside the closure" % n_nd)
    rep.oblige("NONDET", "closure-scan", True, sample={"rule": "NONDET", "functions_scanned": len(clo),
                                                       "source_calls_found": n_nd})


SORTS = ("sort", "sort_unstable", "sort_by", "sort_by_key", "sort_unstable_by", "sort_unstable_by_key",
         "sort_by_cached_key")


def fn_sorts(f):
    return any((callee_generic(t) or "").split("::")[-1] in SORTS for _, t in f.calls())


KEY_OK = ("cmp", "partial_cmp", "as_str", "clone", "deref", "borrow", "as_ref", "then", "then_with", "reverse",
          "to_owned", "to_string", "eq", "ne", "lt", "le", "gt", "ge", "max", "min")


def sorttotal(F, rep, clo):
    """SORTTOTAL — sorting is what turns hash order into a fixed order, so it has to be a TOTAL order and has to come
    before anything that depends on adjacency:
      * `sort_by_key` / `sort_by` / `sort_by_cached_key` whose key closure transforms the element (to_lowercase, len,
        trim ...) can tie for different elements; a stable sort then keeps their incoming (hash) order;
      * `dedup*` removes ADJACENT duplicates only: on a vector that has not been sorted yet, which duplicates survive
        depends on the incoming (hash) order."""
    from engines import derived_locals
    n = 0
    for p in sorted(clo):
        f = F.fns[p]
        if f.crate != "incan":
            continue
        sorts, dedups = [], []
        for bi, t in f.calls():
            g = callee_generic(t) or ""
            last = g.split("::")[-1].split("<")[0]
            if not ("slice" in g or "Vec" in g):
                continue
            if last.startswith("sort"):
                sorts.append((bi, t, last))
            elif last.startswith("dedup"):
                dedups.append((bi, t, last))

        def root(t):
            pl = op_place(t["args"][0]) if t["args"] else None
            cur = pl["l"] if pl is not None else None
            for _ in range(8):
                if cur is None or cur in f.names:
                    return cur
                d = f.single_def(cur)
                if d is None:
                    return cur
                if d[2] == "call" and d[3]["args"] and ((callee_generic(d[3]) or "").endswith("deref_mut") or
                                                       (callee_generic(d[3]) or "").endswith("::deref")):
                    nx = op_place(d[3]["args"][0])
                elif d[2] == "assign" and d[3]["r"] in ("ref", "cfd"):
                    nx = d[3]["p"]
                elif d[2] == "assign" and d[3]["r"] in ("use", "cast"):
                    nx = op_place(d[3]["o"])
                else:
                    return cur
                cur = nx["l"] if nx is not None else None
            return cur

        for bi, t, last in sorts:
            if last in ("sort", "sort_unstable"):
                continue
            n += 1
            key_calls = []
            if len(t["args"]) > 1:
                pl = op_place(t["args"][1])
                dd = f.single_def(pl["l"]) if pl is not None and not pl["p"] else None
                if dd and dd[2] == "assign" and dd[3]["r"] == "agg" and dd[3].get("ak") == "closure":
                    for q in F.closure([dd[3]["def"]], pred=lambda x: x.startswith(p)):
                        key_calls += [(callee_generic(t2) or callee_name(t2) or "").split("::")[-1].split("<")[0]
                                      for _, t2 in F.fns[q].calls()]
            bad = sorted({c for c in key_calls if c and c not in KEY_OK})
            inst = "%s|%s@%s" % (fn_short(p), last, ",".join(bad) or "projection")
            rep.oblige("SORTTOTAL", inst, not bad, sample={"rule": "SORTTOTAL", "fn": p, "line": t.get("ln"),
                                                           "sort": last, "key_transforms": bad})
            if bad:
                rep.add(Finding("SORTTOTAL", "SORTTOTAL|%s|%s|%s" % (fn_short(p), last, ",".join(bad)),
                                "%s sorts with `%s` on a key computed by %s: different elements can have equal keys, "
                                "and the stable sort then leaves them in their incoming order — for data collected "
                                "from a hash container that order differs from run to run" % (fn_short(p), last, bad),
                                file=f.file, line=t.get("ln"), fn=p))
        dom = f.dominators()
        for bi, t, last in dedups:
            n += 1
            r = root(t)
            ok = any(root(st) == r and sb in dom.get(bi, set()) for sb, st, _ in sorts)
            inst = "%s|%s" % (fn_short(p), last)
            rep.oblige("SORTTOTAL", inst + ":after-sort", ok, sample={"rule": "SORTTOTAL", "fn": p, "line": t.get("ln"),
                                                                     "dedup_dominated_by_sort_of_same_vec": ok})
            if not ok:
                rep.add(Finding("SORTTOTAL", "SORTTOTAL|%s|%s-before-sort" % (fn_short(p), last),
                                "%s calls `%s` on a vector that has not been sorted on every path before: only "
                                "adjacent duplicates are removed, so which duplicates survive depends on the incoming "
                                "order (hash order for data collected from a HashMap)" % (fn_short(p), last),
                                file=f.file, line=t.get("ln"), fn=p))
    rep.floor("SORTTOTAL", "keyed sorts and dedups in the output closure", n, 4)


def readdir(F, rep, clo):
    """Directory enumeration order is host state: results of std::fs::read_dir must be sorted before use."""
    n = 0
    callers = F.callers()
    for p in sorted(clo):
        f = F.fns[p]
        for bi, t in f.calls():
            if (callee_name(t) or "") != "std::fs::read_dir":
                continue
            n += 1
            ok = fn_sorts(f)
            if not ok:
                cs = [c for c in callers.get(p, ()) if c in F.fns and c != p and c in clo]
                ok = bool(cs) and all(fn_sorts(F.fns[c]) for c in cs)
            inst = "%s|read_dir" % fn_short(p)
            rep.oblige("NONDET", inst, ok, sample={"rule": "NONDET", "site": inst, "file": f.file,
                                                   "line": t.get("ln"), "sorted": ok})
            if not ok:
                rep.add(Finding("NONDET", "NONDET|%s" % inst,
                                "std::fs::read_dir results are used in directory-enumeration order (neither %s nor "
                                "its callers sort them): the order files are processed and reported in depends on "
                                "host filesystem state" % fn_short(p), file=f.file, line=t.get("ln"), fn=p))
    rep.floor("NONDET", "read_dir sites in the closure", n, 1)


FS_QUERIES = ("std::fs::metadata", "std::fs::symlink_metadata", "std::fs::read", "std::fs::read_to_string",
              "std::path::Path::exists", "std::path::Path::is_file", "std::path::Path::is_dir",
              "std::fs::exists", "std::path::Path::try_exists", "std::path::Path::metadata")


def outstate(F, rep):
    """Generated files are a function of the sources: in the closure of ProjectGenerator::generate*, no write of a
    generated file is control-dependent on the previous contents/metadata of the output directory."""
    from engines import backward_slice, blocks_dominated_by_edge, postdominators
    entries = [f.path for suf in ("ProjectGenerator::generate", "ProjectGenerator::generate_multi",
                                  "ProjectGenerator::generate_nested") for f in F.find_fns(suffix=suf)
               if "{" not in f.path.split("::")[-1]]
    if not rep.anchor("OUTSTATE", "ProjectGenerator::generate*", entries):
        return
    clo = F.closure(entries, pred=lambda p: F.fns[p].crate == "incan")
    n = 0
    for p in sorted(clo):
        f = F.fns[p]
        writes = [(bi, t) for bi, t in f.calls() if (callee_name(t) or "") in ("std::fs::write",)
                  or (callee_name(t) or "").startswith("std::fs::write::<")]
        if not writes:
            continue
        pdom = postdominators(f)
        for wi, (bi, t) in enumerate(writes):
            n += 1
            bad = None
            for sb, blk in enumerate(f.blocks):
                tt = blk["term"]
                if tt["t"] != "switch":
                    continue
                if bi in pdom.get(sb, set()):
                    continue  # the write happens whichever way this branch goes
                succs = f.succs()[sb]
                # control dependence: the write is certain along one successor but not along all
                if not any(bi in pdom.get(s2, set()) for s2 in succs):
                    continue
                pl = op_place(tt["on"])
                if pl is None:
                    continue
                _, calls, _ = backward_slice(f, [pl["l"]])
                for (_, ct) in calls:
                    cn = callee_name(ct) or ""
                    if any(cn == q or cn.startswith(q + "::<") for q in FS_QUERIES):
                        bad = cn
            inst = "%s|write#%d" % (fn_short(p), wi + 1)
            rep.oblige("OUTSTATE", inst, bad is None, sample={"rule": "OUTSTATE", "site": inst, "file": f.file,
                                                              "line": t.get("ln"),
                                                              "depends_on_fs_query": bad})
            if bad:
                rep.add(Finding("OUTSTATE", "OUTSTATE|%s" % inst,
                                "this write of a generated file is control-dependent on %s: what ends up in the "
                                "output directory depends on what was there before, not only on the sources"
                                % bad, file=f.file, line=t.get("ln"), fn=p))
    rep.floor("OUTSTATE", "fs::write sites in the project generator", n, 1)
