"""Sensitivity self-test (thorough tier).

For the property being checked, every confirmed seeded change in /verif/seeded/ that this property's check is recorded
as detecting is applied to a SCRATCH COPY of /repo's current working tree (never to /repo itself), the same static
check is run on that copy, and the report must name the recorded rule. Nothing is executed from the scratch copy: the
nested run is again `cargo +nightly check` through the fact driver plus the Python rules.

A change that no longer applies to the current tree (the tree has moved on) is skipped and reported as such. A change
that applies but is no longer reported means the checker has lost the ability it had when the change was recorded;
this is printed as a SENSITIVITY-LOST line and recorded in the evidence. It only affects the exit status when
VERIF_SENS_STRICT=1, because on a tree somebody else has edited a lost detection says nothing about the property.
"""
import glob
import json
import os
import re
import shutil
import subprocess
import sys
import tempfile
import time

import harness

VERIF = harness.VERIF


def seeds_for(pid):
    out = []
    for mp in sorted(glob.glob(os.path.join(VERIF, "seeded", "*", "meta.json"))):
        try:
            m = json.load(open(mp))
        except Exception:
            continue
        det = m.get("detected_by")
        if not det or not isinstance(det, str):
            continue
        mt = re.match(r"\s*(C\d\d)\s+([A-Z][A-Z0-9-]*)", det)
        if not mt or mt.group(1) != pid:
            continue
        out.append({"seed": os.path.basename(os.path.dirname(mp)), "rule": mt.group(2),
                    "patch": os.path.join(os.path.dirname(mp), "patch.diff"), "recorded": det})
    return out


def benign_for(pid):
    """behaviour-preserving refactorings recorded for this property's area: the check must stay silent on them"""
    out = []
    for d in sorted(glob.glob(os.path.join(VERIF, "benign", pid + "-*"))):
        pf = os.path.join(d, "patch.diff")
        if os.path.exists(pf):
            out.append({"seed": "benign/" + os.path.basename(d), "rule": None, "patch": pf, "benign": True})
    return out


def run(pid, max_seeds=None):
    """-> (results list, lost count). Never touches /repo."""
    seeds = seeds_for(pid)
    if max_seeds:
        seeds = seeds[:max_seeds]
    seeds = seeds + benign_for(pid)
    results = []
    if not seeds:
        return results, 0
    scratch = tempfile.mkdtemp(prefix="incan-verif-sens-")
    lost = 0
    try:
        subprocess.check_call(["rsync", "-a", "--delete", "--exclude", "/target", "--exclude", "/.git",
                               harness.REPO.rstrip("/") + "/", scratch + "/"])
        env = dict(os.environ)
        ns = "sens-%d" % os.getpid()       # own fact cache: concurrent thorough runs must not share one
        env.update({"VERIF_REPO": scratch, "VERIF_CACHE_NS": ns, "VERIF_NESTED": "1", "VERIF_TIER": "quick",
                    "VERIF_EVIDENCE_DIR": os.path.join(harness.CACHE, "evidence-" + ns),
                    "GIT_CEILING_DIRECTORIES": os.path.dirname(scratch)})
        for s in seeds:
            t0 = time.time()
            r = {"seed": s["seed"], "expected_rule": s["rule"]}
            ap = subprocess.run(["git", "apply", "--whitespace=nowarn", s["patch"]], cwd=scratch,
                                stdout=subprocess.PIPE, stderr=subprocess.STDOUT, text=True, env=env)
            if ap.returncode != 0:
                r.update(status="skipped", why="patch does not apply to the current tree")
                results.append(r)
                continue
            try:
                pr = subprocess.run([sys.executable, os.path.join(VERIF, "rules", "run.py"), pid, "--tier", "quick"],
                                    cwd=VERIF, env=env, stdout=subprocess.PIPE, stderr=subprocess.STDOUT, text=True)
                rules = re.findall(r"rule=([A-Z][A-Z0-9-]*) instance=(\S+)", pr.stdout)
                viol = "VIOLATION property=%s" % pid in pr.stdout
                if s.get("benign"):
                    hit = not viol          # a behaviour-preserving change must not be reported
                    r.update(status="silent" if hit else "false-alarm", reported=sorted({k for _, k in rules})[:6],
                             nested_exit=pr.returncode, wall_s=round(time.time() - t0, 1))
                else:
                    hit = viol and any(ru == s["rule"] for ru, _ in rules)
                    r.update(status="detected" if hit else "lost", reported=sorted({k for _, k in rules})[:6],
                             nested_exit=pr.returncode, wall_s=round(time.time() - t0, 1))
                if pr.returncode == 2 and not viol:
                    r.update(status="skipped", why="the patched scratch copy could not be analysed: "
                             + pr.stdout.strip().splitlines()[-1][:160] if pr.stdout.strip() else "no output")
                elif not hit:
                    lost += 1
            finally:
                subprocess.run(["git", "apply", "-R", "--whitespace=nowarn", s["patch"]], cwd=scratch,
                               stdout=subprocess.DEVNULL, stderr=subprocess.DEVNULL, env=env)
            results.append(r)
    finally:
        shutil.rmtree(scratch, ignore_errors=True)
        shutil.rmtree(os.path.join(harness.CACHE, "facts-sens-%d" % os.getpid()), ignore_errors=True)
        shutil.rmtree(os.path.join(harness.CACHE, "evidence-sens-%d" % os.getpid()), ignore_errors=True)
        for lf in glob.glob(os.path.join(harness.CACHE, "factssens-%d-*.lock" % os.getpid())):
            try:
                os.remove(lf)
            except OSError:
                pass
    return results, lost
