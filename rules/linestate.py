"""LINESTATE — typestate of FormatWriter's output tail, by abstract interpretation over the Formatter's MIR.

Abstract states of the text written so far:
  E    nothing written                      M    mid-line, last char not a blank
  MS   mid-line, last char is ' ' (carries the origin of that blank: function + literal)
  N1   ends with exactly one '\n'           N2   ends with two or more '\n' (carries the function whose newline
                                                 call made the line blank)
Transfer functions of the writer API (src/format/writer.rs) are fixed here; every other Formatter function gets a
summary entry-state -> set(exit-states), computed to a fixpoint over the resolved call graph. Strings whose value is
not a compile-time constant are assumed non-empty-or-empty (both outcomes kept) and not ending in a blank.
"""
from collections import defaultdict, deque

from engines import callee_generic, callee_name, const_str, op_place

W = "incan::format::writer::FormatWriter::"


def _nl(s, fn=None):
    """fn = the function whose newline turned a finished line into a blank line (carried by N2 as its origin)"""
    k = s[0]
    if k in ("E", "M", "MS"):
        return ("N1",)
    return ("N2", (fn or "?").split("::")[-1])


def step_write(s, text, fn):
    """text: constant string or None (unknown)."""
    if text is None:
        # run-time strings written by the formatter are identifiers / rendered literals: non-empty, no
        # trailing blank (assumption, recorded in the evidence)
        return {("M",)}
    if text == "":
        return {s}
    if text.endswith("\n"):
        return {_nl(("M",))}
    if text.endswith(" ") or text.endswith("\t"):
        return {("MS", fn, text)}
    return {("M",)}


class LineState:
    def __init__(self, F, fnpaths):
        self.F = F
        self.fns = set(fnpaths)
        self.summary = defaultdict(lambda: defaultdict(set))  # fn -> entry -> exits
        self.newline_in_MS = {}    # (origin fn, text) -> (fn of newline, line)
        self.unknown_blank_counts = set()
        self.call_states = {}      # (fn, block) -> set(states at call)

    def const_arg(self, f, o):
        v = const_str(o)
        if v is not None:
            return v
        pl = op_place(o)
        if pl is None:
            return None
        # &str temporaries: follow single defs
        cur = pl["l"]
        for _ in range(8):
            d = f.single_def(cur)
            if d is None or d[2] != "assign":
                return None
            rv = d[3]
            if rv["r"] in ("use", "cast"):
                v = const_str(rv["o"])
                if v is not None:
                    return v
                p2 = op_place(rv["o"])
                if p2 is None or p2["p"] and any(e[0] != "deref" for e in p2["p"]):
                    return None
                cur = p2["l"]
            elif rv["r"] in ("ref", "cfd"):
                if any(e[0] != "deref" for e in rv["p"]["p"]):
                    return None
                cur = rv["p"]["l"]
            else:
                return None
        return None

    def int_arg(self, f, o):
        if "c" in o:
            c = o["c"]
            digits = c.split("_")[0]
            if digits.isdigit():
                return int(digits)
        return None

    def transfer_call(self, f, bi, t, states):
        n = callee_name(t) or callee_generic(t) or ""
        out = set()
        if n.startswith(W):
            m = n[len(W):]
            for s in states:
                if m == "write":
                    out |= step_write(s, self.const_arg(f, t["args"][1]), f.path)
                elif m == "writeln":
                    for s2 in step_write(s, self.const_arg(f, t["args"][1]), f.path):
                        if s2[0] == "MS":
                            self.newline_in_MS.setdefault((s2[1], s2[2]), (f.path, t.get("ln")))
                        out.add(_nl(s2, f.path))
                elif m == "newline":
                    if s[0] == "MS":
                        self.newline_in_MS.setdefault((s[1], s[2]), (f.path, t.get("ln")))
                    out.add(_nl(s, f.path))
                elif m == "blank_lines":
                    k = self.int_arg(f, t["args"][1])
                    if k is None:
                        self.unknown_blank_counts.add((f.path, t.get("ln")))
                        out |= {s, _nl(s, f.path), _nl(_nl(s, f.path), f.path)}
                    else:
                        s2 = s
                        for _ in range(min(k, 3)):
                            if s2[0] == "MS":
                                self.newline_in_MS.setdefault((s2[1], s2[2]), (f.path, t.get("ln")))
                            s2 = _nl(s2, f.path)
                        out.add(s2)
                elif m == "space":
                    out.add(("MS", f.path, " "))
                else:
                    out.add(s)
            return out
        target = n if n in self.fns else None
        if target is None:
            return set(states)
        for s in states:
            ex = self.summary[target][s]
            self.pending_entries[target].add(s)
            out |= ex
        return out

    def tracked_bools(self, f):
        """Boolean locals of `f` whose every assignment is a constant (`first = true` ... `first = false`): their value
        is carried in the abstract state, so `if first { .. }` is decided per path instead of merged."""
        cache = getattr(self, "_tb", None)
        if cache is None:
            cache = self._tb = {}
        if f.path in cache:
            return cache[f.path]
        cand = {}
        for l in range(f.argc + 1, len(f.locals)):
            if f.local_ty(l) == "bool":
                cand[l] = True
        writes = {l: 0 for l in cand}
        for b in f.blocks:
            for st in b["st"]:
                if st["s"] != "assign" or st["d"]["p"]:
                    continue
                l = st["d"]["l"]
                if l not in cand:
                    continue
                rv = st["rv"]
                c = rv["o"].get("c") if rv["r"] == "use" and isinstance(rv.get("o"), dict) else None
                if c in ("true", "false"):
                    writes[l] += 1
                else:
                    cand[l] = False
            t = b["term"]
            if t["t"] in ("call", "tailcall") and t.get("d") and not t["d"]["p"] and t["d"]["l"] in cand:
                cand[t["d"]["l"]] = False
        # a reference taken to the local lets it change behind our back
        for b in f.blocks:
            for st in b["st"]:
                if st["s"] == "assign" and st["rv"]["r"] in ("ref", "rawptr") and not st["rv"]["p"]["p"] \
                        and st["rv"]["p"]["l"] in cand and st["rv"].get("bk", "mut") == "mut":
                    cand[st["rv"]["p"]["l"]] = False
        tr = sorted(l for l, ok in cand.items() if ok and writes[l] >= 2)
        cache[f.path] = tr
        return tr

    def analyse_fn(self, p, entry):
        f = self.F.fns[p]
        nb = len(f.blocks)
        tracked = self.tracked_bools(f)
        idx = {l: i for i, l in enumerate(tracked)}
        env0 = tuple(None for _ in tracked)
        inst = [set() for _ in range(nb)]
        inst[0] = {(entry, env0)}
        exits = set()
        dq = deque([0])
        inq = {0}
        while dq:
            b = dq.popleft()
            inq.discard(b)
            pairs = set(inst[b])
            # statements: constant writes to tracked booleans; copies of them into switch temporaries
            copies = {}
            if tracked:
                new_pairs = set()
                for (ls, env) in pairs:
                    e = list(env)
                    for st in f.blocks[b]["st"]:
                        if st["s"] != "assign" or st["d"]["p"]:
                            continue
                        l = st["d"]["l"]
                        rv = st["rv"]
                        if l in idx and rv["r"] == "use" and rv["o"].get("c") in ("true", "false"):
                            e[idx[l]] = rv["o"]["c"] == "true"
                    new_pairs.add((ls, tuple(e)))
                pairs = new_pairs
                for st in f.blocks[b]["st"]:
                    if st["s"] == "assign" and not st["d"]["p"]:
                        rv = st["rv"]
                        if rv["r"] == "use":
                            pl = op_place(rv["o"])
                            if pl is not None and not pl["p"] and pl["l"] in idx:
                                copies[st["d"]["l"]] = (pl["l"], False)
                        elif rv["r"] == "un" and rv["op"] == "Not":
                            pl = op_place(rv["o"])
                            if pl is not None and not pl["p"] and pl["l"] in idx:
                                copies[st["d"]["l"]] = (pl["l"], True)
            t = f.term(b)
            states = {ls for ls, _ in pairs}
            if t["t"] in ("call", "tailcall"):
                self.call_states[(p, b)] = set(states) | self.call_states.get((p, b), set())
                pairs = {(ls2, env) for (ls, env) in pairs for ls2 in self.transfer_call(f, b, t, {ls})}
            if t["t"] == "return":
                exits |= {ls for ls, _ in pairs}
            succ_pairs = {s: pairs for s in f.succs()[b]}
            if tracked and t["t"] == "switch" and t.get("ty") == "bool":
                pl = op_place(t["on"])
                src = None
                if pl is not None and not pl["p"]:
                    if pl["l"] in idx:
                        src = (pl["l"], False)
                    elif pl["l"] in copies:
                        src = copies[pl["l"]]
                if src is not None:
                    false_t = [tg for v, tg in t["targets"] if v == "0"]
                    true_t = t["otherwise"]
                    succ_pairs = {}
                    for (ls, env) in pairs:
                        v = env[idx[src[0]]]
                        if v is not None and src[1]:
                            v = not v
                        tg = ([true_t] if v else false_t) if v is not None else f.succs()[b]
                        for s in tg:
                            succ_pairs.setdefault(s, set()).add((ls, env))
            for s, ps in succ_pairs.items():
                if not ps.issubset(inst[s]):
                    inst[s] |= ps
                    if s not in inq:
                        dq.append(s)
                        inq.add(s)
        return exits

    def solve(self, roots, entries):
        self.pending_entries = defaultdict(set)
        for r in roots:
            for e in entries:
                self.pending_entries[r].add(e)
        changed = True
        rounds = 0
        while changed and rounds < 60:
            changed = False
            rounds += 1
            before = sum(len(v) for v in self.pending_entries.values())
            for p in list(self.pending_entries.keys()):
                for e in list(self.pending_entries[p]):
                    ex = self.analyse_fn(p, e)
                    if not ex.issubset(self.summary[p][e]):
                        self.summary[p][e] |= ex
                        changed = True
            if sum(len(v) for v in self.pending_entries.values()) != before:
                changed = True
        return rounds
