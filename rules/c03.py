"""C03 — ill-typed programs are rejected with a located diagnostic (DESIGN.md §4 C03).

Decided here (structural necessary conditions, not the behaviour):
  1 COVER     the checker's call-graph closure reads every child-bearing / mutability-carrying AST field
  2 EXHAUST   the checker's dispatchers name every node variant explicitly
  3 LOOKUP    the symbol whose `is_mutable` gates a re-assignment comes from the scope-chain lookup
  4 SPAN0     no diagnostic of the checker is built from `Span::default()`
  5 DEPCHECK  every program that is lowered was type-checked first (dependency modules included)
  6 ARGTYPES  the user-function call path consumes the callee's parameter types
  7 NOMINAL   types_compatible never equates two distinct nominal / generic heads (decision table)
  8 CTXSCOPE  per-function checker context (return type, error type, loop depth ...) set on entry to a nested body
              is restored on every exit
  9 NAMEEQ    two run-time names are related only by equality / hash lookup, never by prefix / suffix / substring
"""
from engines import (AST, adts_with_prefix, bearing, body_and_closures, callee_generic, callee_name, cover,
                     dominated_by_any_edge, exhaust, field_is_bearing, is_span_field, op_place, short,
                     slice_calls_through_closures, trace_local_source, variant_edges, SUCCESS_VARIANTS)
from facts import iter_read_places, place_fields
from harness import Finding

EXPLANATION = (
    "Static analysis over rustc's MIR of the type checker. Six structural clauses are decided exactly on every run: "
    "(1) every AST field that carries sub-terms or a mutability marker is read somewhere in the call-graph closure "
    "of TypeChecker::check_with_imports; (2) the main `match` of each checker dispatcher names every node variant; "
    "(3) the symbol whose VariableInfo.is_mutable gates a re-assignment is obtained through SymbolTable::lookup "
    "(scope chain), never lookup_local; (4) no CompileError of the checker is constructed from Span::default(); "
    "(5) every call of AstLowering::lower_program is dominated by the success edge of a type-check of the same "
    "program; (6) check_call's user-function path reads the parameter types of the callee. Each clause is a "
    "necessary condition of the property: breaking it makes some ill-typed program pass. That each typing rule's "
    "logic is right in every context is NOT decided.")

CHECK_ENTRY = "incan::frontend::typechecker::TypeChecker::check_with_imports"

# Fields the checker legitimately never reads (one symbol, one reason).
COVER_EXEMPT = {
}

DISPATCHERS = [
    ("check_statement", AST + "Statement", 15),
    ("check_expr", AST + "Expr", 26),
    ("check_declaration", AST + "Declaration", 9),
    ("collect_declaration", AST + "Declaration", 9),
    ("check_pattern", AST + "Pattern", 5),
    ("check_literal", AST + "Literal", 6),
]

MUT_CARRIERS = (AST + "BindingKind", AST + "Receiver")


def run(facts, rep, tier):
    F = facts["default"]
    rep.assumptions += [
        "rustc nightly mir_built and Instance::try_resolve describe the same program the stable toolchain builds",
        "a field that is never projected in the pass's closure cannot influence the pass's result "
        "(wholesale clone/Debug of a node is not a read of its fields)",
    ]
    if not rep.anchor("COVER", CHECK_ENTRY, F.fn(CHECK_ENTRY)):
        return
    chk = F.closure([CHECK_ENTRY])
    rep.floor("COVER", "functions in the checker closure", len(chk), 250)

    # ---- 1 COVER -----------------------------------------------------------------------------------------
    uni = [a for a in adts_with_prefix(F, [AST]) if short(a) not in ("Span",)]
    bear = bearing(F, uni, [AST + "Expr", AST + "Statement", AST + "Pattern", AST + "Type"])

    def relevant(adt, v, f, info):
        if is_span_field(info):
            return False
        if field_is_bearing(info, bear):
            return True
        return any(m in info["adts"] for m in MUT_CARRIERS)

    n, unread = cover(F, rep, "COVER", "typecheck", chk, uni, relevant, COVER_EXEMPT)
    rep.floor("COVER", "child-bearing AST fields", n, 90)

    # ---- 2 EXHAUST ---------------------------------------------------------------------------------------
    for fn_suffix, enum_adt, floor in DISPATCHERS:
        exhaust(F, rep, "EXHAUST", fn_suffix, enum_adt, {}, min_explicit=floor)

    # ---- 3 LOOKUP ----------------------------------------------------------------------------------------
    n_mut = 0
    for p in sorted(chk):
        f = F.fns[p]
        starts = []
        for bi, si, pl, how in iter_read_places(f):
            if how == "write":
                continue
            for (adt, v, fld) in place_fields(pl):
                if adt.endswith("symbols::VariableInfo") and fld == "is_mutable":
                    starts.append((pl["l"], (f.stmts(bi)[si] if si >= 0 else f.term(bi)).get("ln")))
        if not starts:
            continue
        for (l, ln) in starts:
            n_mut += 1
            names = slice_calls_through_closures(F, f, [l])
            callee_names = [n for (_, n) in names if n]
            uses_local = [n for n in callee_names if n.endswith("SymbolTable::lookup_local")]
            uses_chain = [n for n in callee_names if n.endswith("SymbolTable::lookup")]
            fnshort = p.split("::")[-1] if "{closure" not in p else "::".join(p.split("::")[-2:])
            inst = "%s:is_mutable" % fnshort
            ok = bool(uses_chain) and not uses_local
            rep.oblige("LOOKUP", inst, ok, sample={"rule": "LOOKUP", "fn": p, "line": ln,
                                                   "symbol_from": sorted(set(x.split("::")[-1] for x in
                                                                             uses_local + uses_chain))})
            if not ok:
                rep.add(Finding("LOOKUP", "LOOKUP|%s|is_mutable" % fnshort,
                                "the symbol whose is_mutable flag gates this re-assignment is obtained with %s: a "
                                "binding of an enclosing scope is invisible, so `x = ..` inside a nested block "
                                "re-assigns an immutable outer `x` without a diagnostic"
                                % ("lookup_local (current scope only)" if uses_local else "neither lookup nor "
                                   "lookup_local (origin not resolved)"),
                                file=f.file, line=ln, fn=p))
    rep.floor("LOOKUP", "reads of VariableInfo.is_mutable in the checker", n_mut, 3)

    # ---- 4 SPAN0 -----------------------------------------------------------------------------------------
    n_err_calls = 0
    for p in sorted(chk):
        f = F.fns[p]
        if not p.startswith("incan::frontend::typechecker"):
            continue
        ordinal = {}
        for bi, t in f.calls():
            n = callee_name(t) or ""
            item = F.items.get(n)
            out_ty = item.get("output", "") if item else ""
            if "CompileError" not in out_ty:
                continue
            n_err_calls += 1
            k = n.split("::")[-1]
            ordinal[k] = ordinal.get(k, 0) + 1
            bad = False
            for o in t["args"]:
                pl = op_place(o)
                if pl is None or pl["p"]:
                    continue
                if "Span" not in f.local_ty(pl["l"]):
                    continue
                src = trace_local_source(f, pl["l"])
                if src and src[0] == "call":
                    cn = callee_name(src[1]) or ""
                    if cn.endswith("Default>::default") and "Span" in cn:
                        bad = True
            fnshort = p.split("::")[-1]
            inst = "%s:%s#%d" % (fnshort, k, ordinal[k])
            rep.oblige("SPAN0", inst, not bad)
            if bad:
                rep.add(Finding("SPAN0", "SPAN0|%s|%s#%d" % (fnshort, k, ordinal[k]),
                                "diagnostic %s is constructed with Span::default(): it is reported at offset 0..0, "
                                "not inside the offending construct" % k, file=f.file, line=t.get("ln"), fn=p))
    rep.floor("SPAN0", "diagnostic constructor calls in the checker", n_err_calls, 120)

    # ---- 5 DEPCHECK --------------------------------------------------------------------------------------
    depcheck(F, rep)
    # ---- 7 NOMINAL / 8 CTXSCOPE ----------------------------------------------------------------------------
    nominal(F, rep)
    ctxscope(F, rep, chk)
    nameeq(F, rep, chk)
    subspan(F, rep)
    coherent(F, rep, chk)
    scopedepth(F, rep)
    tyargidx(F, rep)
    pass2type(F, rep)

    # ---- 6 ARGTYPES --------------------------------------------------------------------------------------
    cc = F.one_fn("check_call")
    stops = [x.path for x in (F.one_fn("check_expr"), F.one_fn("check_statement")) if x is not None]
    if rep.anchor("ARGTYPES", "check_call", cc) and rep.anchor("ARGTYPES", "check_expr/check_statement", stops):
        def param_reads(entry):
            # the comparator itself destructures Function types; the parameter list must be read *before* it
            cmp_fn = F.one_fn("types_compatible")
            clo = F.closure([entry], stop=stops + ([cmp_fn.path] if cmp_fn else []),
                            pred=lambda p: p.startswith("incan::frontend::typechecker"))
            r = F.field_reads(clo)
            hits = []
            for k in r:
                if k[0].endswith("symbols::ResolvedType") and k[1] == "Function" and k[2] == "0":
                    hits.append("ResolvedType::Function.0")
                if k[0].endswith("symbols::FunctionInfo") and k[2] == "params":
                    hits.append("FunctionInfo.params")
                if k[0].endswith("symbols::MethodInfo") and k[2] == "params":
                    hits.append("MethodInfo.params")
            compat = any((callee_name(t) or "").endswith("types_compatible") for p in clo for _, t in F.fns[p].calls())
            return clo, sorted(set(hits)), compat
        sib = F.one_fn("check_method_call")
        if rep.anchor("ARGTYPES", "check_method_call", sib):
            clo, hits, compat = param_reads(sib.path)
            sib_ok = "MethodInfo.params" in hits and compat
            rep.oblige("ARGTYPES", "check_method_call:MethodInfo.params", sib_ok,
                       sample={"rule": "ARGTYPES", "path": "method call", "reads": hits, "types_compatible": compat,
                               "functions": len(clo)})
            if not sib_ok:
                rep.add(Finding("ARGTYPES", "ARGTYPES|check_method_call|MethodInfo.params",
                                "the method-call path no longer reads the parameter list of the method and compares "
                                "it with the argument types", file=sib.file, line=sib.line, fn=sib.path))
        clo, hits, compat = param_reads(cc.path)
        ok = ("ResolvedType::Function.0" in hits or "FunctionInfo.params" in hits) and compat
        rep.oblige("ARGTYPES", "check_call:param-types", ok,
                   sample={"rule": "ARGTYPES", "path": "function call", "reads": hits, "types_compatible": compat,
                           "functions": len(clo)})
        if not ok:
            rep.add(Finding("ARGTYPES", "ARGTYPES|check_call|ResolvedType::Function.0",
                            "check_call destructures the callee type `Function(params, ret)` but nothing on the "
                            "user-function call path reads the parameter types: arguments are not compared with the "
                            "declared parameter types (the sibling method-call path does compare them)",
                            file=cc.file, line=cc.line, fn=cc.path))


def depcheck(F, rep):
    """Every call of AstLowering::lower_program is dominated by a successful type check of the same program."""
    sites = []
    for p, f in F.fns.items():
        if f.crate != "incan":
            continue
        for bi, t in f.calls():
            n = callee_name(t) or ""
            if n.endswith("AstLowering::lower_program"):
                sites.append((p, f, bi, t))
    rep.floor("DEPCHECK", "call sites of AstLowering::lower_program", len(sites), 5)
    per_fn = {}
    for (p, f, bi, t) in sites:
        per_fn[p] = per_fn.get(p, 0) + 1
        ordn = per_fn[p]
        prog = op_place(t["args"][1]) if len(t["args"]) > 1 else None
        src = trace_local_source(f, prog["l"]) if prog else None
        ok = False
        for b2, t2 in f.calls():
            n2 = callee_name(t2) or ""
            if not (n2.endswith("TypeChecker::check_with_imports") or n2.endswith("TypeChecker::check_program")):
                continue
            prog2 = op_place(t2["args"][1]) if len(t2["args"]) > 1 else None
            src2 = trace_local_source(f, prog2["l"]) if prog2 else None
            if src is None or src2 is None or src != src2:
                continue
            if t2["d"]["p"]:
                continue
            edges = variant_edges(f, t2["d"]["l"], SUCCESS_VARIANTS)
            if bi in dominated_by_any_edge(f, edges):
                ok = True
        fnshort = p.split("::")[-1]
        inst = "%s#%d" % (fnshort, ordn)
        rep.oblige("DEPCHECK", inst, ok, sample={"rule": "DEPCHECK", "fn": p, "line": t.get("ln"),
                                                 "checked_first": ok})
        rep.call_sites += 1
        if not ok:
            rep.add(Finding("DEPCHECK", "DEPCHECK|%s|lower_program#%d" % (fnshort, ordn),
                            "lower_program is called on a program that no type check dominates (strict policy "
                            "`no lowering unless the checker passed` holds for the main module only): bodies of "
                            "imported modules are compiled without ever being checked",
                            file=f.file, line=t.get("ln"), fn=p))


# ---------------------------------------------------------------------------------------------------------------
# 7 NOMINAL: types_compatible on distinct primitive / nominal / generic heads (decision table by constant propagation)
# 8 CTXSCOPE: the `?` error-type context is scoped: whoever overwrites it restores or clears it before returning
# ---------------------------------------------------------------------------------------------------------------
RT = "incan::frontend::symbols::ResolvedType"


def nominal(F, rep):
    from mireval import Evaluator, OutOfFragment, UNKNOWN, enum, opt_none
    tc = F.one_fn("TypeChecker::types_compatible")
    if not rep.anchor("NOMINAL", "TypeChecker::types_compatible", tc):
        return
    rep.functions.add(tc.path)

    def s(x):
        return ("str", '"%s"' % x)

    def vec(items):
        return ("vec", tuple(items))

    def named(n):
        return enum(RT, "Named", [s(n)])

    def generic(n, args):
        return enum(RT, "Generic", [s(n), vec(args)])

    def prim(n):
        return enum(RT, n)

    def hook(name, gen, args, t, ev):
        last = gen.split("::")[-1]
        if name.endswith("helpers::collection_type_id") or name.endswith("helpers::stringlike_type_id") \
                or name.endswith("collections::from_str") or name.endswith("stringlike::from_str"):
            return opt_none()  # user-defined type names are not builtin collection / string-like names
        if last in ("as_str", "as_slice"):
            return ev.deref_all(args[0])
        if last == "len":
            a = ev.deref_all(args[0])
            if a[0] == "vec":
                return ("int", len(a[1]))
        return None

    prims = ["Int", "Float", "Bool", "Str", "Bytes", "Unit"]
    cells = []
    for a in prims:
        for b in prims:
            cells.append(("%s->%s" % (a, b), prim(a), prim(b), a == b))
    cells += [
        ("Named(A)->Named(A)", named("A"), named("A"), True),
        ("Named(A)->Named(B)", named("A"), named("B"), False),
        ("Named(A)->Int", named("A"), prim("Int"), False),
        ("Int->Named(A)", prim("Int"), named("A"), False),
        ("Generic(Box,[Int])->Generic(Box,[Int])", generic("Box", [prim("Int")]), generic("Box", [prim("Int")]), True),
        ("Generic(Box,[Int])->Generic(Wrapper,[Int])", generic("Box", [prim("Int")]),
         generic("Wrapper", [prim("Int")]), False),
        ("Generic(Box,[Int])->Named(Box)", generic("Box", [prim("Int")]), named("Box"), False),
        ("Generic(Box,[Int])->Int", generic("Box", [prim("Int")]), prim("Int"), False),
    ]
    n = 0
    for key, a, b, want in cells:
        n += 1
        try:
            res = Evaluator(F, call_hook=hook).run(tc, [UNKNOWN, ("ref", {0: a}, {"l": 0, "p": []}),
                                                        ("ref", {0: b}, {"l": 0, "p": []})])
        except OutOfFragment as e:
            res = ("out-of-fragment", str(e))
        got = res[1] if res[0] == "bool" else "undecided(%s)" % res[0]
        ok = got == want
        rep.oblige("NOMINAL", key, ok, sample={"rule": "NOMINAL", "cell": key, "compatible": got, "expected": want})
        if not ok:
            rep.add(Finding("NOMINAL", "NOMINAL|types_compatible|%s" % key,
                            "types_compatible(%s) evaluates to %s; distinct nominal/primitive types must be "
                            "incompatible (expected %s): a value of the wrong type would be accepted in "
                            "assignments, returns and method arguments" % (key, got, want),
                            file=tc.file, line=tc.line, fn=tc.path))
    rep.floor("NOMINAL", "cells of types_compatible", n, 44)
    rep.exhaustive_tables.append({"table": "types_compatible (primitive/nominal cells)", "cells": n})


def ctxscope(F, rep, chk):
    FIELD = "current_return_error_type"
    writers = {}
    readers = {}
    for p in sorted(chk):
        f = F.fns[p]
        for bi, b in enumerate(f.blocks):
            if b.get("cleanup"):
                continue
            for si, s in enumerate(b["st"]):
                if s["s"] != "assign":
                    continue
                fl = place_fields(s["d"])
                if fl and fl[-1][0].endswith("typechecker::TypeChecker") and fl[-1][2] == FIELD:
                    writers.setdefault(p, []).append((bi, si, s))
        for bi, si, pl, how in iter_read_places(f):
            fl = place_fields(pl)
            if how != "write" and any(x[0].endswith("typechecker::TypeChecker") and x[2] == FIELD for x in fl):
                readers.setdefault(p, []).append((bi, si))
    rep.floor("CTXSCOPE", "functions writing TypeChecker.current_return_error_type", len(writers), 2)
    for p, ws in sorted(writers.items()):
        f = F.fns[p]
        wblocks = {bi for bi, _, _ in ws}
        # final writes: a return is reachable from them without passing another write
        finals = []
        for (bi, si, s) in ws:
            later_same_block = any(b2 == bi and s2 > si for b2, s2, _ in ws)
            if later_same_block:
                continue
            others = wblocks - {bi}
            reach = set()
            for nb in f.succs()[bi]:
                reach |= f.reachable(nb, avoid=others)
            if any(f.term(b)["t"] == "return" for b in reach) or f.term(bi)["t"] == "return":
                finals.append((bi, si, s))
        ok = True
        why = ""
        for (bi, si, s) in finals:
            rv = s["rv"]
            is_none = rv["r"] == "agg" and rv.get("variant") == "None"
            if rv["r"] == "use":
                from engines import resolve_enum_value
                val = resolve_enum_value(f, rv["o"])
                is_none = is_none or (val is not None and val[0].endswith("option::Option") and val[1] == "None")
            restores = False
            if rv["r"] == "use":
                pl = op_place(rv["o"])
                if pl is not None:
                    src = trace_local_source(f, pl["l"])
                    # restored from a value previously loaded from the same field
                    for (rb, rs) in readers.get(p, []):
                        st = f.stmts(rb)[rs] if rs >= 0 else None
                        if st is not None and not st["d"]["p"] and st["d"]["l"] in derived_set(f, pl["l"]):
                            restores = True
            if is_none and len(ws) >= 2:
                continue
            if restores:
                continue
            ok = False
            why = "the last write on a path to return is neither a restore of the saved value nor the clearing " \
                  "half of a set/clear pair"
        short = p.split("::")[-1]
        rep.oblige("CTXSCOPE", short, ok, sample={"rule": "CTXSCOPE", "fn": p, "writes": len(ws),
                                                  "final_writes": len(finals), "scoped": ok})
        if not ok:
            rep.add(Finding("CTXSCOPE", "CTXSCOPE|%s|%s" % (short, FIELD),
                            "%s overwrites the `?` error-type context (%s) and %s: after it returns, every later `?` "
                            "in the enclosing function is checked against the wrong (or no) error type, so an "
                            "incompatible error type is accepted" % (short, FIELD, why),
                            file=f.file, line=ws[0][2].get("ln"), fn=p))


def derived_set(f, local):
    """locals from which `local` was copied/moved (backwards through single defs)."""
    out = {local}
    cur = local
    for _ in range(10):
        d = f.single_def(cur)
        if d is None or d[2] != "assign":
            break
        rv = d[3]
        if rv["r"] in ("use", "cast"):
            pl = op_place(rv["o"])
        elif rv["r"] in ("ref", "cfd"):
            pl = rv["p"]
        else:
            break
        if pl is None or pl["p"]:
            break
        cur = pl["l"]
        out.add(cur)
    return out


# ---------------------------------------------------------------------------------------------------------------
SUBSTRING_OPS = ("starts_with", "ends_with", "contains", "find", "rfind", "strip_prefix", "strip_suffix",
                 "matches", "rmatches", "match_indices", "trim_start_matches", "trim_end_matches")


def nameeq(F, rep, chk):
    """NAMEEQ — the checker relates two run-time strings (identifiers, variant names, type names) only by equality or
    hash lookup, never by a prefix / suffix / substring test. A substring relation between two names is not a name
    resolution criterion: `Eq` would cover `NotEq`, `Id` would cover `UserId`. Tests against a constant pattern
    (`contains("::")`, `starts_with('_')`) are spelling conventions and are not counted."""
    from engines import resolve_str
    n = 0
    for p in sorted(chk):
        f = F.fns[p]
        if "typechecker" not in p and "symbols" not in p:
            continue
        ords = {}
        for bi, t in f.calls():
            g = callee_generic(t) or ""
            last = g.split("::")[-1].split("<")[0]
            if last not in SUBSTRING_OPS or not ("str::" in g or "core::str" in g or "string::String" in g):
                continue
            n += 1
            pat = t["args"][1] if len(t["args"]) > 1 else None
            const_pat = False
            if pat is not None:
                if "c" in pat:
                    const_pat = True
                else:
                    try:
                        const_pat = resolve_str(f, pat) is not None
                    except Exception:
                        const_pat = False
                    if not const_pat:
                        pl = op_place(pat)
                        ty = f.local_ty(pl["l"]) if pl is not None and not pl["p"] else ""
                        const_pat = ty in ("char",) or ty.startswith("[char")   # a char pattern is a convention test
            import panicinv
            fn_s = panicinv.fn_short(p)
            k = (fn_s, last)
            ords[k] = ords.get(k, 0) + 1
            inst = "%s|%s#%d" % (fn_s, last, ords[k])
            rep.oblige("NAMEEQ", inst, const_pat, sample={"rule": "NAMEEQ", "fn": p, "op": last,
                                                          "line": t.get("ln"), "constant_pattern": const_pat})
            if not const_pat:
                rep.add(Finding("NAMEEQ", "NAMEEQ|%s" % inst,
                                "%s relates two run-time strings with `%s`: names (variants, symbols, types) must be "
                                "compared exactly — a prefix/suffix/substring match lets one name stand for another "
                                "(e.g. a match arm for `NotEq` would cover a missing `Eq`)" % (fn_s, last),
                                file=f.file, line=t.get("ln"), fn=p))
    rep.floor("NAMEEQ", "substring-style string tests in the checker", n, 2)


# ---------------------------------------------------------------------------------------------------------------
def subspan(F, rep):
    """SUBSPAN — a parser function that lexes and parses a SUBSTRING of the source again (f-string interpolations)
    produces spans relative to that substring. For the diagnostics on the embedded sub-AST to be located in the file,
    the function must know where the substring starts: it has to receive a base offset / span (a `usize` or `Span`
    parameter that it uses), or its caller has to hand the sub-AST together with a span to a rebasing function. A
    nested-lexing function with only the substring as input cannot produce file-relative spans."""
    n = 0
    for p, f in sorted(F.fns.items()):
        if not p.startswith("incan_syntax::parser") or "{closure" in p:
            continue
        nested = [t for _, t in f.calls() if (callee_name(t) or "") == "incan_syntax::lexer::lex"]
        if not nested:
            continue
        n += 1
        rep.functions.add(p)
        # parameters that can carry a position: usize / Span (by value or by reference)
        pos_params = [l for l in range(1, f.argc + 1)
                      if f.local_ty(l).replace("&", "").strip() in ("usize", "incan_syntax::ast::Span")]
        used = False
        for l in pos_params:
            for bi, si, pl, how in iter_read_places(f):
                if pl["l"] == l and how != "write":
                    used = True
        # or: a caller rebases — passes the result and a span to something other than the Spanned constructor
        rebased_by_caller = False
        for q, g in F.fns.items():
            if not q.startswith("incan_syntax::parser"):
                continue
            for bi, t in g.calls():
                if (callee_name(t) or "") != p or t["d"]["p"]:
                    continue
                res = derived_of(g, t["d"]["l"])
                for b2, t2 in g.calls():
                    cn = callee_name(t2) or ""
                    if cn.endswith("Spanned::<T>::new") or cn == p:
                        continue
                    tys = [g.local_ty(op_place(o)["l"]) if op_place(o) is not None and not op_place(o)["p"] else ""
                           for o in t2["args"]]
                    has_res = any(op_place(o) is not None and op_place(o)["l"] in res for o in t2["args"])
                    has_pos = any(x.replace("&", "").strip() in ("usize", "incan_syntax::ast::Span") for x in tys)
                    if has_res and has_pos:
                        rebased_by_caller = True
        ok = used or rebased_by_caller
        short = p.split("::")[-1]
        rep.oblige("SUBSPAN", short, ok, sample={"rule": "SUBSPAN", "fn": p, "position_parameters": len(pos_params),
                                                 "uses_base_offset": used, "caller_rebases": rebased_by_caller})
        if not ok:
            rep.add(Finding("SUBSPAN", "SUBSPAN|%s" % short,
                            "%s lexes and parses a substring of the source again but receives no base offset and its "
                            "caller does not rebase the result: every span inside the embedded expression is relative "
                            "to the substring, so a diagnostic on it points at the wrong place (offset 5 of the "
                            "interpolation becomes offset 5 of the file)" % short, file=f.file, line=f.line, fn=p))
    rep.floor("SUBSPAN", "parser functions that lex a substring again", n, 1)


def derived_of(g, l):
    from engines import derived_locals
    return derived_locals(g, l)


# ---------------------------------------------------------------------------------------------------------------
def coherent(F, rep, chk):
    """COHERENT — a condition is required to be `bool` by `ensure_bool_condition(ty, span, compatible, errors)`: the
    type that is tested and the span that is blamed must belong to the SAME expression — `ty` is the result of
    `check_expr(e)` and `span` is `e.span` for one and the same `e`. Testing the type of one expression while pointing
    at another means some condition is never tested at all (an `elif n:` with `n: int` slips through)."""
    n = 0
    for p in sorted(chk):
        f = F.fns[p]
        ords = 0
        for bi, t in f.calls():
            if not (callee_name(t) or "").endswith("ensure_bool_condition") or len(t["args"]) < 2:
                continue
            ords += 1
            n += 1
            ty_root = expr_root_of_type(f, t["args"][0])
            sp_root = expr_root_of_span(f, t["args"][1])
            ok = ty_root is not None and sp_root is not None and ty_root == sp_root
            # the `compatible` flag must have been computed from the same type
            cp_root = "n/a"
            if len(t["args"]) > 2 and op_place(t["args"][2]) is not None:
                cl = op_place(t["args"][2])["l"]
                for _ in range(6):
                    dd = f.single_def(cl)
                    if dd is None:
                        defs = [(b2, t2) for b2, t2 in f.calls() if not t2["d"]["p"] and t2["d"]["l"] == cl]
                        dd = (defs[0][0], -1, "call", defs[0][1]) if len(defs) == 1 else None
                    if dd is None:
                        break
                    if dd[2] == "call":
                        if (callee_name(dd[3]) or "").endswith("types_compatible") and len(dd[3]["args"]) > 1:
                            cp_root = expr_root_of_type(f, dd[3]["args"][1])
                        break
                    if dd[2] == "assign" and dd[3]["r"] in ("use", "cast") and op_place(dd[3]["o"]) is not None:
                        cl = op_place(dd[3]["o"])["l"]
                    else:
                        break
            if ok and cp_root not in ("n/a", None) and cp_root != ty_root:
                ok = False
                sp_root = "%s; the compatibility flag was computed from the type of %s" % (sp_root, cp_root)
            import panicinv
            inst = "%s#%d" % (panicinv.fn_short(p), ords)
            rep.oblige("COHERENT", inst, ok or ty_root is None or sp_root is None,
                       sample={"rule": "COHERENT", "fn": p, "line": t.get("ln"), "type_of": str(ty_root),
                               "span_of": str(sp_root)})
            if ty_root is not None and sp_root is not None and not ok:
                rep.add(Finding("COHERENT", "COHERENT|%s" % inst,
                                "ensure_bool_condition is given the type of one expression (%s) and the span of "
                                "another (%s): the second expression's type is never required to be bool, so a "
                                "non-bool condition passes the checker and fails in rustc"
                                % (ty_root, sp_root), file=f.file, line=t.get("ln"), fn=p))
    rep.floor("COHERENT", "ensure_bool_condition call sites", n, 4)


def _root_place(f, pl, depth=8):
    """(local, field-path) of the user-level place a temporary refers to"""
    for _ in range(depth):
        flds = tuple(e[3] for e in pl["p"] if e[0] == "f")
        if pl["l"] in f.names or pl["l"] <= f.argc:
            return (f.names.get(pl["l"], "_%d" % pl["l"]), flds)
        d = f.single_def(pl["l"])
        if d is None or d[2] != "assign":
            return (f.names.get(pl["l"], "_%d" % pl["l"]), flds)
        rv = d[3]
        if rv["r"] in ("ref", "cfd"):
            inner = rv["p"]
        elif rv["r"] in ("use", "cast") and op_place(rv["o"]) is not None:
            inner = op_place(rv["o"])
        else:
            return (f.names.get(pl["l"], "_%d" % pl["l"]), flds)
        pl = {"l": inner["l"], "p": list(inner["p"]) + [e for e in pl["p"]]}
    return None


def expr_root_of_type(f, o):
    """the expression whose check_expr(..) result this operand is"""
    pl = op_place(o)
    if pl is None:
        return None
    cur = pl["l"]
    for _ in range(8):
        d = f.single_def(cur)
        if d is None:
            # a named local assigned once by a call (let cond_ty = self.check_expr(..))
            defs = [(bi, t) for bi, t in f.calls() if not t["d"]["p"] and t["d"]["l"] == cur]
            if len(defs) == 1:
                d = (defs[0][0], -1, "call", defs[0][1])
            else:
                return None
        if d[2] == "call":
            t = d[3]
            if (callee_name(t) or "").endswith("::check_expr") and len(t["args"]) > 1:
                a = op_place(t["args"][1])
                return _root_place(f, a) if a is not None else None
            return None
        if d[2] != "assign":
            return None
        rv = d[3]
        if rv["r"] in ("ref", "cfd"):
            cur = rv["p"]["l"]
        elif rv["r"] in ("use", "cast") and op_place(rv["o"]) is not None:
            cur = op_place(rv["o"])["l"]
        else:
            return None
    return None


def expr_root_of_span(f, o):
    """the expression whose `.span` this operand is"""
    pl = op_place(o)
    if pl is None:
        return None
    r = _root_place(f, pl)
    if r is None:
        return None
    name, flds = r
    if flds and flds[-1] == "span":
        return (name, flds[:-1])
    return None


# ---------------------------------------------------------------------------------------------------------------
# SCOPEDEPTH: a binder and the body it scopes over live at the same scope depth
# ---------------------------------------------------------------------------------------------------------------
BINDER_FNS = ("check_function", "check_method_with_self_ty", "check_for_stmt", "check_match", "check_list_comp",
              "check_dict_comp")
_BODY = ("check_statement", "check_expr")
_BIND = ("define", "check_pattern")


def _scope_events(F, f, depth=2, _stack=()):
    """-> (events [(block, kind, relative depth)], net delta) or None when the depth is not a function of the block.
    kind: 'bind' (SymbolTable::define / check_pattern) or 'body' (check_statement / check_expr)."""
    succs = f.succs()
    din = {0: 0}
    order = [0]
    events = []
    out_delta = None
    summaries = {}
    while order:
        bi = order.pop()
        d = din[bi]
        t = f.term(bi)
        nd = d
        if t["t"] in ("call", "tailcall"):
            n = callee_name(t) or ""
            last = n.split("::")[-1]
            if "SymbolTable" in n and last == "enter_scope":
                nd = d + 1
            elif "SymbolTable" in n and last == "exit_scope":
                nd = d - 1
            elif ("SymbolTable" in n and last == "define") or last == "check_pattern":
                events.append((bi, "bind", d))
            elif last in _BODY and "TypeChecker" in n:
                events.append((bi, "body", d))
            elif n in F.fns and n.startswith("incan::frontend::typechecker") and depth > 0 and n not in _stack \
                    and n != f.path:
                g = F.fns[n]
                if any("SymbolTable" in (callee_name(t2) or "") and
                       (callee_name(t2) or "").split("::")[-1] in ("enter_scope", "exit_scope")
                       for _, t2 in g.calls()):
                    if n not in summaries:
                        summaries[n] = _scope_events(F, g, depth - 1, _stack + (f.path,))
                    sm = summaries[n]
                    if sm is None:
                        return None
                    for (_b, kind, rd) in sm[0]:
                        events.append((bi, kind, d + rd))
                    nd = d + sm[1]
        if t["t"] == "return":
            if out_delta is not None and out_delta != d:
                return None
            out_delta = d
        for s2 in succs[bi]:
            if s2 in din:
                if din[s2] != nd and not f.blocks[s2].get("cleanup"):
                    return None
            else:
                din[s2] = nd
                order.append(s2)
    return events, (out_delta or 0)


def scopedepth(F, rep):
    """SCOPEDEPTH - assignment resolves its target in the innermost scope only (lookup_local), so a binder (loop
    variable, parameter, pattern binding, comprehension variable) and the body it scopes over must be checked at the
    same scope depth; a body one scope further in treats `x = ...` on the binder as a fresh variable and never
    compares the types."""
    n = 0
    for name in BINDER_FNS:
        f = F.one_fn("TypeChecker>::" + name)
        if not rep.anchor("SCOPEDEPTH", name, f):
            continue
        rep.functions.add(f.path)
        r = _scope_events(F, f)
        if r is None:
            rep.note("SCOPEDEPTH", "%s: scope depth is path dependent; not decided" % name) \
                if hasattr(rep, "note") else None
            continue
        events, _ = r
        binds = [(b, d) for b, k, d in events if k == "bind"]
        bodies = [(b, d) for b, k, d in events if k == "body"]
        bad = None
        for bb, bd in binds:
            reach = f.reachable(bb)
            for cb, cd in bodies:
                if cb != bb and cb in reach and cd != bd and (bad is None):
                    bad = (bd, cd, f.term(cb).get("ln"))
        n += 1
        ok = bad is None and bool(binds) and bool(bodies)
        rep.oblige("SCOPEDEPTH", name, ok, sample={"rule": "SCOPEDEPTH", "fn": name, "binders": len(binds),
                                                   "body_checks": len(bodies)})
        if not ok:
            msg = ("binds its names at scope depth +%d but checks the body at depth +%d" % (bad[0], bad[1])) if bad \
                else "no binder / body check found"
            rep.add(Finding("SCOPEDEPTH", "SCOPEDEPTH|%s" % name,
                            "%s %s: an assignment to the bound name inside the body is resolved in the innermost "
                            "scope only, so it introduces a fresh variable and its type is never compared with the "
                            "binder's" % (name, msg), file=f.file, line=(bad[2] if bad else f.line), fn=f.path))
    rep.floor("SCOPEDEPTH", "binder functions decided", n, 5)


def tyargidx(F, rep):
    """TYARGIDX - no built-in generic type has more than two type arguments (List/Set/Option/Frozen*[T], Dict[K, V],
    Result[T, E]); a constant index of 2 or more into a list of ResolvedType always misses, which silently disables
    the comparison it feeds (`.get(k)`) or panics (`[k]`)."""
    n = 0
    for p in sorted(F.fns):
        if not p.startswith("incan::frontend::typechecker"):
            continue
        f = F.fns[p]
        per = 0
        for bi, t in f.calls():
            g = callee_generic(t) or ""
            inst = t["f"].get("inst", "") + t["f"].get("self", "")
            if "ResolvedType" not in inst or "HashMap" in g:
                continue
            if not (g.endswith("::get") or g.endswith("Index::index")):
                continue
            ks = [o.get("c") for o in t["args"][1:] if isinstance(o, dict) and str(o.get("c", "")).endswith("_usize")]
            if not ks:
                continue
            k = int(ks[0].split("_")[0])
            n += 1
            per += 1
            ok = k <= 1
            inst_id = "%s#%d" % (p.split("::")[-1], per)
            rep.oblige("TYARGIDX", inst_id, ok)
            if not ok:
                rep.add(Finding("TYARGIDX", "TYARGIDX|%s|%d" % (p.split("::")[-1], k),
                                "%s reads type argument %d of a generic type; no built-in generic has that many, so "
                                "the lookup never succeeds and the type comparison it guards is skipped"
                                % (p.split("::")[-1], k), file=f.file, line=t.get("ln"), fn=p))
    rep.floor("TYARGIDX", "constant indices into type-argument lists", n, 30)


def pass2type(F, rep):
    """PASS2TYPE - the type a body is checked against (`set_return_type`) is resolved from the declaration's own
    annotation in the second pass, when every declaration is in the symbol table. A type read back from the
    first-pass symbol table can contain the `TypeVar` placeholder the collector stores for names it has not seen yet,
    and a TypeVar is compatible with everything: every `return` in such a function is accepted."""
    from engines import backward_slice
    n = 0
    for p in sorted(F.fns):
        if not p.startswith("incan::frontend::typechecker"):
            continue
        f = F.fns[p]
        for bi, t in f.calls():
            cn = callee_name(t) or ""
            if not cn.endswith("::set_return_type") or len(t["args"]) < 2:
                continue
            pl = op_place(t["args"][1])
            if pl is None:
                continue
            n += 1
            rep.functions.add(p)
            _, calls, _ = backward_slice(f, [pl["l"]])
            names = [callee_name(c) or callee_generic(c) or "" for _, c in calls]
            resolved = any(x.split("::")[-1].split("<")[0] == "resolve_type" for x in names)
            table = sorted({x.split("::")[-1] for x in names if "SymbolTable" in x})
            ok = resolved and not table
            inst = p.split("::")[-1]
            rep.oblige("PASS2TYPE", inst, ok, sample={"rule": "PASS2TYPE", "fn": inst, "resolve_type": resolved,
                                                      "symbol_table_reads": table})
            if not ok:
                rep.add(Finding("PASS2TYPE", "PASS2TYPE|%s" % inst,
                                "%s checks the body against a return type %s: a first-pass signature holds TypeVar "
                                "placeholders for types declared further down, and a TypeVar accepts every returned "
                                "value" % (inst, ("read from the symbol table (%s)" % ", ".join(table)) if table
                                           else "that is not resolved from the annotation"),
                                file=f.file, line=t.get("ln"), fn=p))
    rep.floor("PASS2TYPE", "set_return_type calls", n, 2)
