"""C01 — compiled programs behave as the source says (DESIGN.md §4 C01).

Observable equivalence of generated binaries is NOT decided. Decided structural necessary conditions:
  1 COVER-AST  every non-span AST field is consumed somewhere in the code generator's closure (nothing the user wrote
               is silently dropped before Rust is produced)
  2 COVER-IR   every field of every IR node that lowering can construct is consumed by the emitter
  3 EXHAUST    lowering / emission dispatchers name every variant
  4 OPID       operators keep their identity AST -> IR -> Rust token (tables extracted from MIR, compared with the
               Rust spelling oracle); the four CompoundOp -> BinaryOp copies are the identity on names
  5 GROUP      source grouping has a carrier: either the IR keeps a grouping node or infix/unary/pow emission
               parenthesises its operands
  6 SCOPEEXISTS lowering decides `x = e` (re-assignment vs new binding) from scope membership, not from the
               variable's recorded type
"""
from engines import (AST, IR, adts_with_prefix, arm_regions, backward_slice, callee_generic, callee_name, cover,
                     discr_switches, enum_table, exhaust, is_span_field, op_place, primary_dispatch, region_outputs,
                     short)
from harness import Finding

EXPLANATION = (
    "Static analysis of lowering (AST -> IR) and emission (IR -> Rust tokens). (1) field-use coverage of all "
    "non-span AST fields over the closure of IrCodegen::try_generate*; (2) field-use coverage of all IR node fields "
    "(variants lowering never constructs are skipped automatically) over the closure of IrEmitter::emit_program; "
    "(3) main matches of 13 lowering/emission dispatchers name every variant; (4) decision tables of lower_binop, "
    "emit_binop_token, the unary-operator arm and the four CompoundOp->BinaryOp maps are extracted and compared with "
    "the operator-identity / Rust-spelling oracle; (5) the Expr::Paren arm of lowering builds no IR node and no "
    "emission site of infix, unary or pow operators wraps its operands in a parenthesis group, so grouping written in "
    "the source has no carrier (genuine miscompilation, reproduced); (6) the reassign-vs-bind decision of lowering is "
    "sliced back to a scope-membership query. Run-time equivalence of the generated program is not decided.")

_DECO = ("decorators are not lowered: their run-time meaning is realised elsewhere — @derive on types is read by "
         "lower_model/lower_class (ModelDecl/ClassDecl.decorators ARE covered), @route/@fixture/@skip/@xfail/@slow on "
         "functions by codegen's route scanner and the test runner, @requires on traits by the checker only "
         "(registry incan_core::lang::decorators: Derive, Route, Fixture, Requires)")
COVER_AST_EXEMPT = {
    "Declaration::Docstring.0": "module docstrings have no run-time behaviour",
    "FunctionDecl::FunctionDecl.decorators": _DECO,
    "MethodDecl::MethodDecl.decorators": _DECO,
    "TraitDecl::TraitDecl.decorators": _DECO,
    "DecoratorArg::Named.0": _DECO,
    "DecoratorArg::Named.1": _DECO,
    "DecoratorArgValue::Type.0": _DECO,
    "DecoratorArgValue::Expr.0": _DECO,
}

COVER_IR_EXEMPT = {
    "IrTrait::IrTrait.visibility": "visibility only affects cross-module name resolution (decided by the checker, "
                                   "C14); it has no run-time behaviour",
    "Pattern::Enum.name": "redundant: lower_pattern stores the qualified path `Enum::Variant` in `variant`; the "
                          "emitter prints that path",
    "IrStmtKind::While.label": "Incan has no labelled break/continue: lowering always stores None",
    "IrStmtKind::For.label": "Incan has no labelled break/continue: lowering always stores None",
    "IrStmtKind::Loop.label": "Incan has no labelled break/continue: lowering always stores None",
}

LOWER_DISPATCH = [
    ("AstLowering>::lower_expr", AST + "Expr", 26), ("AstLowering>::lower_statement", AST + "Statement", 15),
    ("AstLowering>::lower_declaration", AST + "Declaration", 9), ("AstLowering>::lower_pattern", AST + "Pattern", 5),
    ("AstLowering>::lower_type", AST + "Type", 6), ("AstLowering>::lower_binop", AST + "BinaryOp", 18),
]
EMIT_DISPATCH = [
    ("IrEmitter<'a>>::emit_expr", IR + "expr::IrExprKind", 37), ("IrEmitter<'a>>::emit_stmt", IR + "stmt::IrStmtKind", 13),
    ("IrEmitter<'a>>::emit_decl", IR + "decl::IrDeclKind", 8), ("IrEmitter<'a>>::emit_type", IR + "types::IrType", 26),
    ("IrEmitter<'a>>::emit_pattern", IR + "expr::Pattern", 7), ("conversions::emit_binop_token", IR + "expr::BinOp", 20),
    ("IrEmitter<'a>>::emit_builtin_call", IR + "expr::BuiltinFn", 18),
]

BINOP_ORACLE = {"Add": "Add", "Sub": "Sub", "Mul": "Mul", "Div": "Div", "FloorDiv": "FloorDiv", "Mod": "Mod",
                "Pow": "Pow", "Eq": "Eq", "NotEq": "Ne", "Lt": "Lt", "Gt": "Gt", "LtEq": "Le", "GtEq": "Ge",
                "And": "And", "Or": "Or",
                # membership / identity are rewritten before lower_binop is consulted (contains / ==)
                "In": "Eq", "NotIn": "Eq", "Is": "Eq"}
TOKEN_ORACLE = {"Add": ["push_add"], "Sub": ["push_sub"], "Mul": ["push_star"], "Div": ["push_div"],
                "FloorDiv": ["push_div"], "Mod": ["push_rem"], "Pow": ["push_dot", "push_ident"],
                "Eq": ["push_eq_eq"], "Ne": ["push_ne"], "Lt": ["push_lt"], "Le": ["push_le"], "Gt": ["push_gt"],
                "Ge": ["push_ge"], "And": ["push_and_and"], "Or": ["push_or_or"], "BitAnd": ["push_and"],
                "BitOr": ["push_or"], "BitXor": ["push_caret"], "Shl": ["push_shl"], "Shr": ["push_shr"]}
UNARY_TOKEN_ORACLE = {"Neg": "push_sub", "Not": "push_bang", "Deref": "push_star"}


def constructed_variants(F):
    out = set()
    for p, f in F.fns.items():
        if f.crate != "incan" or (p.startswith("<") and " as core::" in p):
            continue  # derived Clone/Debug/PartialEq impls mention every variant
        for b in f.blocks:
            for s in b["st"]:
                if s["s"] == "assign" and s["rv"]["r"] == "agg" and s["rv"].get("ak") == "adt":
                    out.add((s["rv"]["adt"], s["rv"]["variant"]))
    return out


def run(facts, rep, tier):
    F = facts["default"]
    from engines import eqop
    eqop(F, rep, ('src/backend/ir/lower/expr.rs', 'src/backend/ir/lower/stmt.rs', 'src/backend/ir/lower/decl.rs', 'src/backend/ir/lower/types.rs', 'src/backend/ir/emit/expressions/mod.rs', 'src/backend/ir/emit/expressions/calls.rs', 'src/backend/ir/emit/expressions/builtins.rs', 'src/backend/ir/emit/expressions/indexing.rs', 'src/backend/ir/emit/expressions/format.rs', 'src/backend/ir/emit/expressions/methods.rs', 'src/backend/ir/emit/statements.rs', 'src/backend/ir/emit/decls.rs', 'src/backend/ir/conversions.rs', 'src/backend/ir/codegen.rs', 'crates/incan_stdlib/src/num.rs', 'crates/incan_stdlib/src/strings.rs', 'crates/incan_stdlib/src/collections.rs', 'crates/incan_stdlib/src/iter.rs'))
    rep.assumptions += [
        "a field never projected in a pass's closure cannot influence its output",
        "rustc nightly MIR describes the program the stable toolchain builds",
    ]
    gens = [f.path for suf in ("IrCodegen::<'a>::try_generate", "IrCodegen::<'a>::try_generate_module",
                               "IrCodegen::<'a>::try_generate_multi_file",
                               "IrCodegen::<'a>::try_generate_multi_file_nested")
            for f in F.find_fns(suffix=suf) if "{" not in f.path.split("::")[-1]]
    if not rep.anchor("COVER-AST", "IrCodegen::try_generate*", gens):
        return
    lp = F.one_fn("AstLowering::lower_program")
    if not rep.anchor("COVER-AST", "AstLowering::lower_program", lp):
        return
    clo = F.closure([lp.path], pred=lambda p: F.fns[p].crate == "incan")
    rep.floor("COVER-AST", "functions in the lowering closure", len(clo), 120)
    uni = [a for a in adts_with_prefix(F, [AST]) if short(a) not in ("Span",)]
    n, _ = cover(F, rep, "COVER-AST", "lower", clo, uni, lambda a, v, f, i: not is_span_field(i), COVER_AST_EXEMPT)
    rep.floor("COVER-AST", "non-span AST fields", n, 150)

    eps = [p for p in F.fns if p.endswith("IrEmitter<'a>>::emit_program")]
    if rep.anchor("COVER-IR", "IrEmitter::emit_program", eps):
        em = F.closure(eps, pred=lambda p: F.fns[p].crate == "incan")
        rep.floor("COVER-IR", "functions in the emitter closure", len(em), 250)
        iru = [a for a in F.adts if any(a.startswith(IR + m) for m in ("expr::", "stmt::", "decl::", "types::"))]
        built = constructed_variants(F)

        def relevant(adt, v, f, info):
            if "Span" in info["ty"]:
                return False
            if F.adts[adt]["enum"] and (adt, v) not in built:
                return False  # lowering never constructs this variant
            return True
        n2, _ = cover(F, rep, "COVER-IR", "emit", em, iru, relevant, COVER_IR_EXEMPT)
        rep.floor("COVER-IR", "fields of constructible IR nodes", n2, 150)

    for fn_suffix, enum_adt, floor in LOWER_DISPATCH + EMIT_DISPATCH:
        exhaust(F, rep, "EXHAUST", fn_suffix, enum_adt, {}, min_explicit=floor)

    opid(F, rep)
    group(F, rep)
    scopeexists(F, rep)
    foldorder(F, rep)
    builtin_identity(F, rep)


# variant -> (a name its arm must be able to emit (any of), names it must never emit): each builtin / method is the
# Rust operation of the same meaning, and never its opposite. "emit" = literal quote! identifiers and format_ident!
# sources of the arm, helpers of the same file included (read under the constant flags they are called with).
BUILTIN_NAMES = {
    "Min": (("min",), ("max",)), "Max": (("max",), ("min",)),
    "Abs": (("abs",), ()), "Len": (("len",), ()), "Sum": (("sum",), ()), "Zip": (("zip",), ()),
    "Enumerate": (("enumerate",), ()), "Sorted": (("sort", "sort_by", "sorted"), ()),
    "Print": (("println",), ("eprintln",)),
    "ReadFile": (("read_to_string",), ("write",)), "WriteFile": (("write",), ("read_to_string",)),
}
METHOD_NAMES = {
    "Lower": (("to_lowercase", "str_lower"), ("to_uppercase", "str_upper")),
    "Upper": (("to_uppercase", "str_upper"), ("to_lowercase", "str_lower")),
    "StartsWith": (("starts_with", "str_starts_with"), ("ends_with", "str_ends_with")),
    "EndsWith": (("ends_with", "str_ends_with"), ("starts_with", "str_starts_with")),
    "Append": (("push",), ("pop",)), "Pop": (("pop",), ("push",)),
    "Insert": (("insert",), ("remove",)), "Remove": (("remove",), ("insert",)),
    "Reserve": (("reserve",), ("reserve_exact",)), "ReserveExact": (("reserve_exact",), ("reserve",)),
    "Swap": (("swap",), ()), "Join": (("str_join", "join"), ()), "Split": (("str_split", "split"), ()),
    "Replace": (("str_replace", "replace"), ()), "Strip": (("str_strip", "trim"), ()),
}
BUILTIN_DISPATCH = (
    ("IrEmitter<'a>>::emit_builtin_call", IR + "expr::BuiltinFn", BUILTIN_NAMES, 11),
    ("IrEmitter<'a>>::try_emit_builtin_call", "incan_core::lang::builtins::BuiltinFnId", BUILTIN_NAMES, 11),
    ("collection_methods::emit_collection_method", IR + "expr::MethodKind", METHOD_NAMES, 7),
    ("string_methods::emit_string_method", IR + "expr::MethodKind", METHOD_NAMES, 8),
)


def builtin_identity(F, rep):
    """BUILTINID — the arm that emits builtin / method V can produce the Rust name of V and cannot produce the name
    of its opposite (`max` for `min`, `to_uppercase` for `lower`, ...). Decides the name only, not the arguments."""
    from engines import region_names
    for suffix, adt, table, floor in BUILTIN_DISPATCH:
        f = F.one_fn(suffix)
        if not rep.anchor("BUILTINID", suffix.split("::")[-1], f):
            continue
        rep.functions.add(f.path)
        sw = primary_dispatch(f, adt)
        if not rep.anchor("BUILTINID", "match on %s in %s" % (short(adt), suffix.split("::")[-1]), sw):
            continue
        regs = arm_regions(f, sw)
        n = 0
        for v, (need, never) in sorted(table.items()):
            if v not in regs:
                continue
            n += 1
            names = region_names(F, f, regs[v])
            has = [x for x in need if x in names]
            bad = [x for x in never if x in names]
            ok = bool(has) and not bad
            inst = "%s:%s" % (suffix.split("::")[-1], v)
            rep.oblige("BUILTINID", inst, ok, sample={"rule": "BUILTINID", "arm": inst, "emits": has,
                                                      "opposite": bad})
            if not ok:
                why = ("can emit `%s`, the opposite operation" % bad[0]) if bad else \
                    ("cannot emit any of %s" % "/".join(need))
                rep.add(Finding("BUILTINID", "BUILTINID|%s|%s" % (suffix.split("::")[-1], v),
                                "the %s arm of %s %s: the generated program computes a different builtin than the "
                                "source names" % (v, suffix.split("::")[-1], why),
                                file=f.file, line=sw["ln"], fn=f.path))
        rep.floor("BUILTINID", "arms of %s with a name oracle" % suffix.split("::")[-1], n, floor)


FOLD_ORDER = (
    # function suffix, (ADT suffix, field) iterated, why the iteration has to run back to front
    ("AstLowering>::lower_statement", ("ast::IfStmt", "elif_branches"),
     "the elif chain is built inside-out: each elif wraps the chain built so far into its else branch, so the LAST elif "
     "must be processed first; forward iteration nests the last elif outermost and tests the branches in reverse order"),
    ("AstLowering>::lookup_var", ("lower::AstLowering", "scopes"),
     "scopes is a stack with the innermost scope last: the first hit must be the innermost binding (shadowing)"),
)


def foldorder(F, rep):
    """FOLDORDER — two iterations in lowering are correct only back to front (reasons in FOLD_ORDER). If the function
    iterates over the field at all, the iterator passes through `.rev()` before it is consumed. (No iteration in the
    function — e.g. after a rewrite as a recursion — leaves the obligation vacuous, it is not an alarm.)"""
    from engines import derived_locals, callee_generic, body_and_closures
    for suf, (adt_suf, field), why in FOLD_ORDER:
        f = F.one_fn(suf)
        if not rep.anchor("FOLDORDER", suf, f):
            continue
        own = body_and_closures(F, f.path)
        for p in own:
            g = F.fns[p]
            for bi, t in g.calls():
                gg = callee_generic(t) or ""
                if not (gg.endswith("::iter") or gg.endswith("IntoIterator::into_iter")) or not t["args"]:
                    continue
                pl = op_place(t["args"][0])
                if pl is None:
                    continue
                # does the receiver derive from the field?
                cur, hit = pl, False
                for _ in range(8):
                    if any(e[0] == "f" and e[1].endswith(adt_suf) and e[3] == field for e in cur["p"]):
                        hit = True
                        break
                    d = g.single_def(cur["l"])
                    if d is None:
                        break
                    if d[2] == "call" and ((callee_generic(d[3]) or "").endswith("Deref::deref") or
                                           (callee_generic(d[3]) or "").endswith("::as_slice")) and d[3]["args"]:
                        nxt = op_place(d[3]["args"][0])
                    elif d[2] == "assign" and d[3]["r"] in ("ref", "cfd"):
                        nxt = d[3]["p"]
                    elif d[2] == "assign" and d[3]["r"] in ("use", "cast"):
                        nxt = op_place(d[3]["o"])
                    else:
                        nxt = None
                    if nxt is None:
                        break
                    cur = nxt
                if not hit or t["d"]["p"]:
                    continue
                its = derived_locals(g, t["d"]["l"])
                reversed_ = any((callee_generic(t2) or "").endswith("Iterator::rev") and t2["args"] and
                                op_place(t2["args"][0]) is not None and op_place(t2["args"][0])["l"] in its
                                for _, t2 in g.calls())
                inst = "%s:%s" % (suf.split("::")[-1], field)
                rep.oblige("FOLDORDER", inst, reversed_, sample={"rule": "FOLDORDER", "fn": p, "line": t.get("ln"),
                                                                 "field": field, "reversed": reversed_})
                if not reversed_:
                    rep.add(Finding("FOLDORDER", "FOLDORDER|%s|%s" % (suf.split("::")[-1], field),
                                    "%s iterates over `%s` front to back: %s" % (suf.split("::")[-1], field, why),
                                    file=g.file, line=t.get("ln"), fn=p))


def opid(F, rep):
    lb = F.one_fn("AstLowering>::lower_binop")
    if rep.anchor("OPID", "lower_binop", lb):
        _, tab = enum_table(lb, AST + "BinaryOp")
        for v, want in sorted(BINOP_ORACLE.items()):
            aggs = [a[1] for a in (tab or {}).get(v, ([], [], []))[1] if a[0] == IR + "expr::BinOp"]
            ok = aggs == [want]
            rep.oblige("OPID", "lower_binop:%s" % v, ok, sample={"rule": "OPID", "ast_op": v, "ir_op": aggs,
                                                                 "oracle": want})
            if not ok:
                rep.add(Finding("OPID", "OPID|lower_binop|%s" % v,
                                "lowering maps BinaryOp::%s to %s; the operator identity requires %s"
                                % (v, aggs, want), file=lb.file, line=lb.line, fn=lb.path))
        rep.exhaustive_tables.append({"table": "lower_binop", "cells": len(BINOP_ORACLE)})
    et = F.one_fn("conversions::emit_binop_token")
    if rep.anchor("OPID", "emit_binop_token", et):
        _, tab = enum_table(et, IR + "expr::BinOp")
        for v, want in sorted(TOKEN_ORACLE.items()):
            toks = [c.split("::")[-1] for c in (tab or {}).get(v, ([], [], []))[2] if "push_" in c]
            ok = toks == want
            rep.oblige("OPID", "emit_binop_token:%s" % v, ok, sample={"rule": "OPID", "ir_op": v, "tokens": toks,
                                                                      "oracle": want})
            if not ok:
                rep.add(Finding("OPID", "OPID|emit_binop_token|%s" % v,
                                "BinOp::%s is emitted as tokens %s; Rust spelling requires %s" % (v, toks, want),
                                file=et.file, line=et.line, fn=et.path))
        rep.exhaustive_tables.append({"table": "emit_binop_token", "cells": len(TOKEN_ORACLE)})
    ee = F.one_fn("IrEmitter<'a>>::emit_expr")
    if rep.anchor("OPID", "emit_expr", ee):
        best = None
        for s in discr_switches(ee):
            if s["adt"] == IR + "expr::UnaryOp" and (best is None or len(s["explicit"]) > len(best["explicit"])):
                best = s
        if rep.anchor("OPID", "UnaryOp match in emit_expr", best):
            regs = arm_regions(ee, best)
            for v, want in sorted(UNARY_TOKEN_ORACLE.items()):
                toks = [c.split("::")[-1] for c in region_outputs(ee, regs.get(v, set()))[2] if "push_" in c]
                ok = want in toks
                rep.oblige("OPID", "unary:%s" % v, ok, sample={"rule": "OPID", "unary": v, "tokens": toks})
                if not ok:
                    rep.add(Finding("OPID", "OPID|emit_expr|UnaryOp::%s" % v,
                                    "UnaryOp::%s is emitted with tokens %s; expected %s" % (v, toks, want),
                                    file=ee.file, line=best["ln"], fn=ee.path))
    compound_tables(F, rep, "OPID")


def compound_tables(F, rep, rule):
    """The CompoundOp -> BinaryOp copies (parser x2, checker, lowering) are the identity on names: `x op= y` means
    `x = x op y` in every phase. Shared with C07 (the checker's copy decides the numeric result type of `/=`)."""
    # CompoundOp -> BinaryOp copies
    n = 0
    for p, f in F.fns.items():
        if not (p.startswith("incan_syntax::parser") or p.startswith("incan::frontend::typechecker::check_stmt")
                or p.startswith("incan::backend::ir::lower::stmt")):
            continue
        for s in discr_switches(f):
            if s["adt"] != AST + "CompoundOp" or len(s["explicit"]) < 6:
                continue
            regs = arm_regions(f, s)
            maps = {}
            for v, blocks in regs.items():
                aggs = [a[1] for a in region_outputs(f, blocks)[1] if a[0] in (AST + "BinaryOp", IR + "expr::BinOp")]
                maps[v] = aggs
            if not any(maps.values()):
                continue
            n += 1
            for v, aggs in sorted(maps.items()):
                if v == "_":
                    continue
                ok = bool(aggs) and all(a == v for a in aggs)
                inst = "%s@%s:%s" % (p.split("::")[-1], s["ln"], v)
                rep.oblige(rule, "compound:" + inst, ok)
                if not ok:
                    rep.add(Finding(rule, rule + "|compound|%s|%s" % (p.split("::")[-1], v),
                                    "CompoundOp::%s is desugared to %s in %s; `x %s= y` must mean `x = x %s y`"
                                    % (v, aggs, p.split("::")[-1], v, v), file=f.file, line=s["ln"], fn=p))
    rep.floor(rule, "CompoundOp -> BinaryOp tables (parser x2, checker, lowering)", n, 4)


def group(F, rep):
    le = F.one_fn("AstLowering>::lower_expr")
    carrier = False
    if rep.anchor("GROUP", "lower_expr", le):
        sw = primary_dispatch(le, AST + "Expr")
        regs = arm_regions(le, sw) if sw else {}
        if rep.anchor("GROUP", "Expr::Paren arm of lower_expr", regs.get("Paren")):
            aggs = [a for a in region_outputs(le, regs["Paren"])[1] if a[0] == IR + "expr::IrExprKind"]
            carrier = bool(aggs)
            rep.oblige("GROUP", "lower_expr:Paren-builds-IR-node", True,
                       sample={"rule": "GROUP", "paren_arm_builds": [a[1] for a in aggs] or "nothing (inner "
                               "expression returned as is)"})
    ir_has = any(v["name"] in ("Paren", "Group", "Grouped") for v in F.adts.get(IR + "expr::IrExprKind",
                                                                                  {"variants": []})["variants"])
    sites = []
    be = F.one_fn("IrEmitter<'a>>::emit_binop_expr")
    if rep.anchor("GROUP", "emit_binop_expr", be):
        best = None
        for s in discr_switches(be):
            if s["adt"].endswith("conversions::BinOpEmitKind"):
                best = s
        if rep.anchor("GROUP", "match on BinOpEmitKind in emit_binop_expr", best):
            regs = arm_regions(be, best)
            for v in ("Infix", "Pow"):
                calls = region_outputs(be, regs.get(v, set()))[2]
                wraps = any("push_group" in c or c.endswith("Group::new") for c in calls)
                if v == "Pow":
                    # `#l.pow(..)`: the receiver is spliced first; the only group is the call's argument list
                    order = [c for c in calls if "push_group" in c or c.endswith("to_tokens")]
                    wraps = bool(order) and "push_group" in order[0]
                sites.append(("emit_binop_expr|%s" % v, wraps, be, best["ln"]))
    ee = F.one_fn("IrEmitter<'a>>::emit_expr")
    if ee is not None:
        best = None
        for s in discr_switches(ee):
            if s["adt"] == IR + "expr::UnaryOp" and (best is None or len(s["explicit"]) > len(best["explicit"])):
                best = s
        if best is not None:
            regs = arm_regions(ee, best)
            for v in ("Neg", "Not"):
                calls = region_outputs(ee, regs.get(v, set()))[2]
                wraps = any("push_group" in c or c.endswith("Group::new") for c in calls)
                sites.append(("emit_expr|UnaryOp::%s" % v, wraps, ee, best["ln"]))
    rep.floor("GROUP", "operator emission sites examined", len(sites), 4)
    for (inst, wraps, f, ln) in sites:
        ok = wraps or (carrier and ir_has)
        rep.oblige("GROUP", inst, ok, sample={"rule": "GROUP", "site": inst, "operands_parenthesised": wraps,
                                              "ir_has_grouping_node": ir_has})
        if not ok:
            rep.add(Finding("GROUP", "GROUP|%s" % inst,
                            "grouping written in the source has no carrier here: lowering drops Expr::Paren, the IR "
                            "has no grouping node, and this emission site splices operand tokens next to the "
                            "operator without parentheses — `(a + b) * (a - b)` is emitted as `a + b * a - b`, "
                            "`-(a + b)` as `- a + b`, `not (a < b)` as `! a < b`", file=f.file, line=ln, fn=f.path))


def scopeexists(F, rep):
    f = F.one_fn("AstLowering>::lower_statement")
    if not rep.anchor("SCOPEEXISTS", "lower_statement", f):
        return
    # the Inferred arm of the match on BindingKind
    best = None
    for s in discr_switches(f):
        if s["adt"] == AST + "BindingKind" and "Inferred" in s["explicit"]:
            best = s
    if not rep.anchor("SCOPEEXISTS", "match on BindingKind in lower_statement", best):
        return
    regs = arm_regions(f, best)
    arm = regs.get("Inferred", set())
    # first boolean branch inside the arm
    sw = None
    for b in sorted(arm):
        t = f.term(b)
        if t["t"] == "switch" and t["ty"] == "bool":
            sw = (b, t)
            break
    if not rep.anchor("SCOPEEXISTS", "existence test in the Inferred arm", sw):
        return
    pl = op_place(sw[1]["on"])
    locs, calls, _ = backward_slice(f, [pl["l"]])
    names = [(callee_name(t) or callee_generic(t) or "") for _, t in calls]
    member = False
    for (bi, t) in calls:
        n = callee_generic(t) or ""
        if n.endswith("::contains_key"):
            member = True
        for o in t["args"]:
            p2 = op_place(o)
            if p2 is None:
                continue
            d = f.single_def(p2["l"])
            if d and d[2] == "assign" and d[3]["r"] == "agg" and d[3].get("ak") == "closure":
                g = F.fns.get(d[3]["def"])
                if g is not None and any((callee_generic(t2) or "").endswith("::contains_key") for _, t2 in g.calls()):
                    member = True
    by_type = any(n.endswith("lookup_var") for n in names)
    ok = member and not by_type
    rep.oblige("SCOPEEXISTS", "lower_statement:Inferred", ok,
               sample={"rule": "SCOPEEXISTS", "decided_by": sorted(set(n.split("::")[-1] for n in names))[:6],
                       "scope_membership": member})
    if not ok:
        rep.add(Finding("SCOPEEXISTS", "SCOPEEXISTS|lower_statement|Inferred",
                        "whether `x = e` re-assigns an existing binding or creates a new one is decided from %s "
                        "instead of scope membership (contains_key on the scope chain): a bound variable whose "
                        "recorded type is Unknown is treated as unbound and shadowed, so the update is lost after "
                        "the block" % ("the variable's recorded type (lookup_var)" if by_type else
                                       sorted(set(n.split('::')[-1] for n in names))[:4]),
                        file=f.file, line=sw[1].get("ln"), fn=f.path))
