"""C18 — the language server converges to the latest document text (DESIGN.md §4 C18).

All interleavings of handlers are NOT explored (that is model checking). Decided necessary conditions:
  1 VERSIONGUARD  every insertion into the shared `documents` map is control-dependent on a comparison between the
                  version already stored for that URI and the version being stored, made under the same write guard
  2 PUBLISHVER    every publish_diagnostics of the analysis passes the version of the text that was analysed
  3 HANDLERS      did_open / did_change hand text and version of the same notification to the analysis; did_close
                  removes the entry under a write guard and before awaiting anything but the lock
  4 STOREFIRST    the analysed state is stored before diagnostics are published
  5 WHOMAYWRITE   only analyze_document and did_close write `documents`; no handler skips the analysis of a change
  (info)          guards of the documents lock that are live across an await point are reported in the evidence
"""
from engines import (backward_slice, blocks_dominated_by_edge, body_and_closures, callee_generic, callee_name,
                     derived_locals, iter_operands_rv, op_place, place_fields)
from harness import Finding

EXPLANATION = (
    "Typestate/dataflow analysis of the async handler bodies (pre-transform coroutine MIR) in src/lsp/backend.rs. "
    "A slow analysis of an old version can only be prevented from overwriting a newer one if the store itself is "
    "conditional: so every HashMap::insert reached through a RwLockWriteGuard of `documents` must be dominated by an "
    "edge of a comparison whose operands derive from DocumentState.version read through the same guard and from the "
    "version being stored. Also decided: each publish_diagnostics in analyze_document carries Some(version) of the "
    "analysed text; did_open/did_change pass text and version of one notification; did_close removes under the "
    "write lock. Guards live across await points are listed (information). Exploring all handler interleavings is "
    "not attempted; the rule is a necessary condition of convergence, and it is violated today (unconditional "
    "insert).")

LSP = "incan::lsp::backend::"


def lsp_bodies(F):
    return {p: f for p, f in F.fns.items() if p.startswith(LSP) or ("incan::lsp::backend::IncanLanguageServer as" in p)}


def guard_locals(f, kind):
    return [l["i"] for l in f.locals if ("RwLock%sGuard<" % kind) in l["ty"] and not l["ty"].startswith("&")
            and "Poll<" not in l["ty"] and "Option<" not in l["ty"] and "Future" not in l["ty"]]


def holders(f, roots):
    out = set(roots)
    changed = True
    while changed:
        changed = False
        for b in f.blocks:
            for s in b["st"]:
                if s["s"] == "assign" and not s["d"]["p"] and s["d"]["l"] not in out:
                    rv = s["rv"]
                    p = None
                    if rv["r"] in ("ref", "cfd"):
                        p = rv["p"]
                    elif rv["r"] in ("use", "cast"):
                        p = op_place(rv["o"])
                    if p is not None and p["l"] in out and all(e[0] == "deref" for e in p["p"]):
                        out.add(s["d"]["l"])
                        changed = True
            t = b["term"]
            if t["t"] == "call" and not t["d"]["p"] and t["d"]["l"] not in out:
                n = (callee_generic(t) or "").split("::")[-1]
                if n in ("deref", "deref_mut", "as_mut", "as_ref", "borrow", "borrow_mut"):
                    a = op_place(t["args"][0]) if t["args"] else None
                    if a is not None and a["l"] in out:
                        out.add(t["d"]["l"])
                        changed = True
    return out


def run(facts, rep, tier):
    F = facts["default"]
    rep.assumptions += [
        "tower-lsp runs up to 4 handlers concurrently (buffer_unordered), so any await point is a possible "
        "interleaving point",
        "mir_built of an async fn's body shows guards, awaits (Yield terminators) and calls before the coroutine "
        "transform",
    ]
    bodies = lsp_bodies(F)
    rep.floor("VERSIONGUARD", "LSP handler bodies", len([1 for f in bodies.values() if f.coroutine]), 8)
    n_mut = 0
    info = []
    for p, f in sorted(bodies.items()):
        if not f.coroutine:
            continue
        rep.functions.add(p)
        wg = guard_locals(f, "Write")
        rg = guard_locals(f, "Read")
        yields = [bi for bi, b in enumerate(f.blocks) if b["term"]["t"] == "yield"]
        for kind, gs in (("write", wg), ("read", rg)):
            for g in gs:
                live = guard_live_blocks(f, g)
                across = sorted(y for y in yields if y in live)
                if across:
                    info.append({"fn": short(p), "guard": "%s guard _%d" % (kind, g), "await_points_while_held":
                                 len(across), "lines": sorted({f.term(y).get("ln") for y in across})})
        if not wg:
            continue
        hs = holders(f, wg)
        for bi, t in f.calls():
            g = callee_generic(t) or ""
            last = g.split("::")[-1]
            if last not in ("insert", "remove", "clear", "retain", "entry", "extend") or "HashMap" not in \
                    (t["f"].get("self", "") + g):
                continue
            a0 = op_place(t["args"][0]) if t["args"] else None
            if a0 is None or a0["l"] not in hs:
                continue
            n_mut += 1
            inst = "%s:%s" % (short(p), last)
            if last != "insert":
                rep.oblige("VERSIONGUARD", inst, True, sample={"rule": "VERSIONGUARD", "site": inst,
                                                               "line": t.get("ln"), "kind": "removal (no guard "
                                                               "required for a close)"})
                continue
            ok, why = insert_is_version_guarded(F, f, bi, t, hs)
            rep.oblige("VERSIONGUARD", inst, ok, sample={"rule": "VERSIONGUARD", "site": inst, "line": t.get("ln"),
                                                         "guarded": ok, "detail": why})
            rep.call_sites += 1
            if not ok:
                rep.add(Finding("VERSIONGUARD", "VERSIONGUARD|%s|insert" % short(p),
                                "the analysed version is stored into `documents` unconditionally (%s): if the "
                                "analysis of version n finishes after the analysis of version n+1 (the handlers "
                                "yield at %d await points and run concurrently), the older text overwrites the "
                                "newer one, and a stale analysis can re-insert a document that did_close removed"
                                % (why, len(yields)), file=f.file, line=t.get("ln"), fn=p))
    rep.floor("VERSIONGUARD", "mutations of `documents` through a write guard", n_mut, 2)
    rep.notes.append({"guards_live_across_await": info})
    publishver(F, rep, bodies)
    handlers(F, rep, bodies)
    storefirst(F, rep, bodies)
    whomaywrite(F, rep, bodies)


def short(p):
    x = p.replace("::{closure#0}", "")
    return x.split("::")[-1]


def guard_live_blocks(f, g):
    """Blocks between the guard's first definition and its drop / StorageDead (over-approximation)."""
    defs = [bi for bi, b in enumerate(f.blocks) for s in b["st"]
            if s["s"] == "assign" and not s["d"]["p"] and s["d"]["l"] == g]
    if not defs:
        return set()
    ends = set()
    for bi, b in enumerate(f.blocks):
        t = b["term"]
        if t["t"] == "drop" and not t["p"]["p"] and t["p"]["l"] == g:
            ends.add(bi)
        for s in b["st"]:
            if s["s"] == "dead" and s["l"] == g:
                ends.add(bi)
    live = set()
    for d in defs:
        live |= f.reachable(d, avoid=ends)
    return live | set(defs)


def insert_is_version_guarded(F, f, bi, t, hs):
    # reads of DocumentState.version anywhere that dominate the insert
    dom = f.dominators().get(bi, set())
    version_reads = set()
    for b2, blk in enumerate(f.blocks):
        for s in blk["st"]:
            if s["s"] != "assign":
                continue
            rv = s["rv"]
            pls = [op_place(o) for o in iter_operands_rv(rv)]
            if "p" in rv and isinstance(rv["p"], dict):
                pls.append(rv["p"])
            for pl in pls:
                if pl is None:
                    continue
                for (adt, v, fl) in place_fields(pl):
                    if adt.endswith("DocumentState") and fl == "version" and not s["d"]["p"]:
                        version_reads.add(s["d"]["l"])
    if not version_reads:
        return False, "no read of DocumentState.version in the function"
    vr = set()
    for l in version_reads:
        vr |= derived_locals(f, l)
    # comparisons using such a read, whose branch dominates the insert
    for b2, blk in enumerate(f.blocks):
        for s in blk["st"]:
            if s["s"] == "assign" and s["rv"]["r"] == "bin" and s["rv"]["op"] in ("Lt", "Le", "Gt", "Ge", "Eq", "Ne"):
                a, b = op_place(s["rv"]["a"]), op_place(s["rv"]["b"])
                if not ((a and a["l"] in vr) or (b and b["l"] in vr)):
                    continue
                cl = s["d"]["l"]
                locs = derived_locals(f, cl)
                for b3, blk3 in enumerate(f.blocks):
                    tt = blk3["term"]
                    if tt["t"] == "switch":
                        p = op_place(tt["on"])
                        if p is not None and p["l"] in locs:
                            for s2 in f.succs()[b3]:
                                if bi in blocks_dominated_by_edge(f, b3, s2):
                                    return True, "insert dominated by a branch on a comparison with the stored version"
    # PartialOrd calls (i32::cmp, max) on the stored version
    for b2, t2 in f.calls():
        n = (callee_generic(t2) or "").split("::")[-1]
        if n in ("cmp", "partial_cmp", "lt", "le", "gt", "ge", "eq", "ne", "max", "min"):
            if any(op_place(o) is not None and op_place(o)["l"] in holders(f, vr) for o in t2["args"]):
                if not t2["d"]["p"]:
                    locs = derived_locals(f, t2["d"]["l"])
                    for b3, blk3 in enumerate(f.blocks):
                        tt = blk3["term"]
                        if tt["t"] == "switch":
                            p = op_place(tt["on"])
                            if p is not None and p["l"] in locs:
                                for s2 in f.succs()[b3]:
                                    if bi in blocks_dominated_by_edge(f, b3, s2):
                                        return True, "insert dominated by a branch on cmp(stored version, ..)"
    return False, "DocumentState.version is read but no comparison with it dominates the insert"


def publishver(F, rep, bodies):
    f = bodies.get(LSP + "IncanLanguageServer::analyze_document::{closure#0}")
    if not rep.anchor("PUBLISHVER", "analyze_document body", f):
        return
    vloc = [l for l, n in f.names.items() if n == "version"]
    if not rep.anchor("PUBLISHVER", "local `version` of analyze_document", vloc):
        return
    vset = holders(f, derived_locals(f, vloc[0]))
    n = 0
    for bi, t in f.calls():
        if not (callee_name(t) or "").endswith("Client::publish_diagnostics"):
            continue
        n += 1
        a = op_place(t["args"][3]) if len(t["args"]) > 3 else None
        ok = False
        if a is not None:
            d = f.single_def(a["l"])
            if d and d[2] == "assign" and d[3]["r"] == "agg" and d[3].get("variant") == "Some":
                o = op_place(d[3]["ops"][0])
                if o is not None:
                    locs, _, _ = backward_slice(f, [o["l"]])
                    ok = bool(locs & vset) or o["l"] in vset
        inst = "analyze_document:publish#%d" % n
        rep.oblige("PUBLISHVER", inst, ok, sample={"rule": "PUBLISHVER", "site": inst, "line": t.get("ln"),
                                                   "version_arg_is_analysed_version": ok})
        if not ok:
            rep.add(Finding("PUBLISHVER", "PUBLISHVER|%s" % inst,
                            "publish_diagnostics in analyze_document does not pass Some(version) of the analysed "
                            "text: the client cannot discard diagnostics computed from an older version",
                            file=f.file, line=t.get("ln"), fn=f.path))
    rep.floor("PUBLISHVER", "publish_diagnostics calls in analyze_document", n, 3)
    # diagnostics published FOR A DEPENDENCY (collect_dependency_modules) carry the version of the dependency's own
    # open document (DocumentState.version), never the version of the importing file
    g = next((b for p, b in bodies.items() if "collect_dependency_modules" in p and p.endswith("{closure#0}")), None)
    if rep.anchor("PUBLISHVER", "collect_dependency_modules body", g):
        fam = [g] + [F.fns[q] for q in F.fns if q.startswith(g.path + "::{closure")]
        m = 0
        for bi, t in g.calls():
            if not (callee_name(t) or "").endswith("Client::publish_diagnostics"):
                continue
            m += 1
            a = op_place(t["args"][3]) if len(t["args"]) > 3 else None
            ok = False
            if a is not None:
                locs, calls, _ = backward_slice(g, [a["l"]])
                fields = set()
                for h in fam:
                    for b in h.blocks:
                        for st in b["st"]:
                            if st["s"] != "assign":
                                continue
                            if h is g and st["d"]["l"] not in locs:
                                continue
                            rv = st["rv"]
                            pls = [op_place(o) for o in iter_operands_rv(rv)]
                            if "p" in rv and isinstance(rv["p"], dict):
                                pls.append(rv["p"])
                            for pl in pls:
                                if pl:
                                    fields |= {(x[0].split("::")[-1], x[2]) for x in place_fields(pl)}
                # closures built in the slice (dep_doc.map(|d| d.version)) belong to it
                used_closures = set()
                for b in g.blocks:
                    for st in b["st"]:
                        if st["s"] == "assign" and st["d"]["l"] in locs and st["rv"]["r"] == "agg" and \
                                st["rv"].get("ak") == "closure":
                            used_closures.add(st["rv"]["def"])
                cl_fields = set()
                for q in used_closures:
                    h = F.fns.get(q)
                    if h is None:
                        continue
                    for b in h.blocks:
                        for st in b["st"]:
                            if st["s"] == "assign":
                                rv = st["rv"]
                                pls = [op_place(o) for o in iter_operands_rv(rv)]
                                if "p" in rv and isinstance(rv["p"], dict):
                                    pls.append(rv["p"])
                                for pl in pls:
                                    if pl:
                                        cl_fields |= {(x[0].split("::")[-1], x[2]) for x in place_fields(pl)}
                ok = ("DocumentState", "version") in cl_fields or \
                     (("DocumentState", "version") in fields and not used_closures)
            inst = "collect_dependency_modules:publish#%d" % m
            rep.oblige("PUBLISHVER", inst, ok, sample={"rule": "PUBLISHVER", "site": inst, "line": t.get("ln"),
                                                       "version_is_the_dependency_documents": ok})
            if not ok:
                rep.add(Finding("PUBLISHVER", "PUBLISHVER|%s" % inst,
                                "diagnostics published for a dependency do not carry that dependency document's own "
                                "version (DocumentState.version is not what flows into the version argument): the "
                                "client sees the dependency at a version it never sent, or falls back to an older one",
                                file=g.file, line=t.get("ln"), fn=g.path))
        rep.floor("PUBLISHVER", "publish_diagnostics calls in collect_dependency_modules", m, 2)


def handlers(F, rep, bodies):
    for h in ("did_open", "did_change"):
        f = next((g for p, g in bodies.items() if p.endswith("::%s::{closure#0}" % h)), None)
        if not rep.anchor("HANDLERS", h, f):
            continue
        calls = [(bi, t) for bi, t in f.calls() if (callee_name(t) or "").endswith("analyze_document")]
        ok = len(calls) == 1
        if ok:
            t = calls[0][1]
            # text and version arguments both derive from the handler's params local
            srcs = []
            for o in t["args"][1:]:
                pl = op_place(o)
                if pl is None:
                    continue
                locs, _, args = backward_slice(f, [pl["l"]])
                fields = set()
                for b in f.blocks:
                    for s in b["st"]:
                        if s["s"] == "assign" and s["d"]["l"] in locs:
                            rv = s["rv"]
                            pls = [op_place(o2) for o2 in iter_operands_rv(rv)]
                            if "p" in rv and isinstance(rv["p"], dict):
                                pls.append(rv["p"])
                            for p2 in pls:
                                if p2:
                                    fields |= {x[2] for x in place_fields(p2)}
                srcs.append(fields)
            flat = set().union(*srcs) if srcs else set()
            ok = "version" in flat and ("text" in flat or "content_changes" in flat) and "uri" in flat
        rep.oblige("HANDLERS", h, ok, sample={"rule": "HANDLERS", "handler": h, "passes_uri_text_version": ok})
        if not ok:
            rep.add(Finding("HANDLERS", "HANDLERS|%s" % h,
                            "%s does not hand uri, text and version of its own notification to analyze_document "
                            "exactly once" % h, file=f.file, line=f.line, fn=f.path))
    f = next((g for p, g in bodies.items() if p.endswith("::did_close::{closure#0}")), None)
    if rep.anchor("HANDLERS", "did_close", f):
        wg = guard_locals(f, "Write")
        hs = holders(f, wg) if wg else set()
        rem = [t for bi, t in f.calls() if (callee_generic(t) or "").endswith("::remove") and t["args"] and
               op_place(t["args"][0]) is not None and op_place(t["args"][0])["l"] in hs]
        ok = bool(rem)
        # CLOSEFIRST: the removal is the first thing did_close does — before it, the handler may only suspend on the
        # documents lock itself. If another future (publish_diagnostics) is awaited first, a didOpen for the same URI
        # can run during that suspension and the resumed close then deletes the re-opened document.
        rem_blocks = [bi for bi, t in f.calls() if (callee_generic(t) or "").endswith("::remove") and t["args"] and
                      op_place(t["args"][0]) is not None and op_place(t["args"][0])["l"] in hs]
        early = []
        for bi, t in f.calls():
            g = callee_generic(t) or ""
            if not g.endswith("Future::poll"):
                continue
            who = t["f"].get("self", "") + " " + t["f"].get("inst", "")
            if "RwLock" in who or "rwlock" in who.lower():
                continue
            if any(rb in f.reachable(bi) for rb in rem_blocks):
                early.append((t.get("ln"), who.strip()[:80]))
        ok_first = bool(rem_blocks) and not early
        rep.oblige("HANDLERS", "did_close:remove-before-any-other-await", ok_first,
                   sample={"rule": "HANDLERS", "handler": "did_close", "futures_polled_before_remove": early[:3]})
        if rem_blocks and early:
            rep.add(Finding("HANDLERS", "HANDLERS|did_close|remove-after-await",
                            "did_close awaits another future (%s) before it removes the document: while it is "
                            "suspended there a didOpen for the same URI can store the re-opened text, and the resumed "
                            "close deletes it — the server then has no state for a document the editor has open"
                            % early[0][1], file=f.file, line=early[0][0], fn=f.path))
        rep.oblige("HANDLERS", "did_close:remove-under-write-guard", ok)
        if not ok:
            rep.add(Finding("HANDLERS", "HANDLERS|did_close|remove",
                            "did_close no longer removes the document from `documents` under the write guard: "
                            "hover/definition keep answering from a closed document", file=f.file, line=f.line,
                            fn=f.path))


def storefirst(F, rep, bodies):
    """On the success path the analysed state is stored BEFORE diagnostics are published: no suspension point
    other than the lock acquisition separates the end of the analysis from the store."""
    f = bodies.get(LSP + "IncanLanguageServer::analyze_document::{closure#0}")
    if f is None:
        return
    chk = [bi for bi, t in f.calls() if (callee_name(t) or "").endswith("TypeChecker::check_with_imports")]
    ins = [bi for bi, t in f.calls() if (callee_generic(t) or "").endswith("::insert") and
           "HashMap" in (t["f"].get("self", "") + (callee_generic(t) or "")) and
           "DocumentState" in t["f"].get("inst", "")]
    pubs = [bi for bi, t in f.calls() if (callee_name(t) or "").endswith("Client::publish_diagnostics")]
    if not (rep.anchor("STOREFIRST", "check_with_imports call", chk) and rep.anchor("STOREFIRST", "documents insert",
                                                                                  ins)):
        return
    dom = f.dominators()
    after = [p for p in pubs if chk[0] in dom.get(p, set())]
    rep.floor("STOREFIRST", "publish_diagnostics calls after type checking", len(after), 1)
    for p in after:
        ok = any(i in dom.get(p, set()) for i in ins)
        rep.oblige("STOREFIRST", "publish@line%s" % f.term(p).get("ln"), ok,
                   sample={"rule": "STOREFIRST", "publish_line": f.term(p).get("ln"), "store_dominates": ok})
        if not ok:
            rep.add(Finding("STOREFIRST", "STOREFIRST|analyze_document|publish-before-store",
                            "after a successful analysis, publish_diagnostics(..).await is reached before the result "
                            "is stored: the handler can be suspended between `analysis finished` and `state stored`, "
                            "so a didClose (or a newer change) handled in between is undone when this handler "
                            "resumes and inserts its document", file=f.file, line=f.term(p).get("ln"), fn=f.path))
    # count suspension points between the check and the store
    yields = [bi for bi, b in enumerate(f.blocks) if b["term"]["t"] == "yield"]
    between = [y for y in yields if chk[0] in dom.get(y, set()) and any(y in dom.get(i, set()) for i in ins)]
    ok = len(between) <= 1
    rep.oblige("STOREFIRST", "suspensions-between-analysis-and-store", ok,
               sample={"rule": "STOREFIRST", "await_points_between_check_and_store": len(between)})
    if not ok:
        rep.add(Finding("STOREFIRST", "STOREFIRST|analyze_document|extra-await",
                        "%d await points dominate the store after type checking (only the lock acquisition is "
                        "expected)" % len(between), file=f.file, line=f.line, fn=f.path))


def whomaywrite(F, rep, bodies):
    """Only analyze_document (store) and did_close (remove) may take the write lock of `documents`; did_open and
    did_change must hand every notification to the analysis."""
    allowed = ("analyze_document", "did_close")
    for p, f in sorted(bodies.items()):
        if not f.coroutine:
            continue
        wg = guard_locals(f, "Write")
        name = short(p)
        ok = not wg or name in allowed
        rep.oblige("WHOMAYWRITE", name, ok, sample={"rule": "WHOMAYWRITE", "handler": name,
                                                    "takes_write_lock": bool(wg)})
        if not ok:
            rep.add(Finding("WHOMAYWRITE", "WHOMAYWRITE|%s" % name,
                            "%s takes the write lock of `documents` itself: stored text/version can change without a "
                            "matching analysis and publication (only analyze_document stores, only did_close removes)"
                            % name, file=f.file, line=f.line, fn=p))
    # analyze_document: every way through it publishes - the diagnostics the client holds last must belong to the
    # latest version, so a version for which nothing is published leaves an older version's diagnostics standing
    fa = next((g for p, g in bodies.items() if p.endswith("::analyze_document::{closure#0}")), None)
    if rep.anchor("ALWAYSPUBLISH", "analyze_document", fa):
        pubs = {bi for bi, t in fa.calls() if "publish_diagnostics" in (callee_name(t) or "")}
        rets = [bi for bi in range(len(fa.blocks)) if fa.term(bi)["t"] == "return"]
        rep.floor("ALWAYSPUBLISH", "publish_diagnostics calls in analyze_document", len(pubs), 2)
        silent = any(r in fa.reachable(0, avoid=pubs) for r in rets)
        rep.oblige("ALWAYSPUBLISH", "analyze_document", not silent,
                   sample={"rule": "ALWAYSPUBLISH", "publish_sites": len(pubs), "returns": len(rets)})
        if silent:
            rep.add(Finding("ALWAYSPUBLISH", "ALWAYSPUBLISH|analyze_document",
                            "analyze_document can return without publishing diagnostics for the version it was "
                            "given: the client keeps the diagnostics of an older version (e.g. a syntax error that an "
                            "undo has already removed)", file=fa.file, line=fa.line, fn=fa.path))
    # did_change: on the `Some(change)` edge every path reaches analyze_document
    f = next((g for p, g in bodies.items() if p.endswith("::did_change::{closure#0}")), None)
    if f is not None:
        from engines import discr_switches, postdominators
        # the change that is analysed is taken unconditionally (first / next), never selected by its content
        selective = ("find", "find_map", "filter", "filter_map", "skip_while", "take_while", "position", "rfind",
                     "max_by_key", "min_by_key", "max_by", "min_by")
        sel = sorted({(callee_generic(t) or "").split("::")[-1].split("<")[0] for _, t in f.calls()} & set(selective))
        rep.oblige("WHOMAYWRITE", "did_change:takes-the-change-unconditionally", not sel,
                   sample={"rule": "WHOMAYWRITE", "selective_adaptors_in_did_change": sel})
        if sel:
            rep.add(Finding("WHOMAYWRITE", "WHOMAYWRITE|did_change|selects-by-content",
                            "did_change picks the change to analyse with a content-dependent adaptor (%s): a "
                            "notification whose change does not satisfy it is dropped without analysis, so the "
                            "stored text and the published diagnostics stay at an older version" % ", ".join(sel),
                            file=f.file, line=f.line, fn=f.path))
        calls = [bi for bi, t in f.calls() if (callee_name(t) or "").endswith("analyze_document")]
        sw = [s for s in discr_switches(f) if s["adt"].endswith("option::Option") and "Some" in s["explicit"]]
        if calls and sw:
            tgt = sw[0]["explicit"]["Some"]
            reach = f.reachable(tgt, avoid=set(calls))
            escapes = any(f.term(b)["t"] == "return" for b in reach)
            rep.oblige("WHOMAYWRITE", "did_change:always-analyses", not escapes,
                       sample={"rule": "WHOMAYWRITE", "did_change_can_return_without_analysis": escapes})
            if escapes:
                rep.add(Finding("WHOMAYWRITE", "WHOMAYWRITE|did_change|skips-analysis",
                                "did_change can return for a received change without calling analyze_document: the "
                                "diagnostics last published then belong to an older version than the latest one",
                                file=f.file, line=f.line, fn=f.path))
