"""SIGN — abstract interpretation of the integer/float kernels over the sign lattice.

Numeric values are symbolic terms with a sign in {-, 0, +} (or unknown). Comparisons against the constant 0 are
decided by the sign; `a % b` / `a.wrapping_rem(b)` introduce the term r, integer `a / b` the term q (Rust truncating
division), float `a / b` the term (a/b). Everything else is out of fragment (the rule fails closed).
"""
from mireval import Evaluator, OutOfFragment, UNKNOWN, boolean, integer


def num(expr, sign=None, isfloat=False):
    return ("num", expr, sign, isfloat)


def is_zero_const(v):
    return v[0] == "int" and v[1] == 0


class SignEvaluator(Evaluator):
    def __init__(self, F, syms, tybind=None, **kw):
        """syms: {'r': sign, 'q': sign}; tybind: generic parameter -> concrete type for trait resolution."""
        super().__init__(F, **kw)
        self.syms = syms
        self.tybind = tybind or {}
        self.events = []

    def const(self, o):
        c, ty = o["c"], o["ty"]
        if ty in ("f64", "f32"):
            txt = c.replace("f64", "").replace("f32", "").replace("_", "")
            try:
                v = float(txt)
            except ValueError:
                return UNKNOWN
            if v == int(v):
                return integer(int(v))
            return UNKNOWN
        return super().const(o)

    def dest_is_float(self):
        try:
            return self.cur_fn.local_ty(self.cur_dest["l"]) in ("f64", "f32")
        except Exception:
            return False

    def rvalue(self, env, rv):
        if rv["r"] == "bin":
            a = self.operand(env, rv["a"])
            b = self.operand(env, rv["b"])
            op = rv["op"]
            if a[0] == "num" or b[0] == "num":
                return self.sym_bin(op, a, b)
        if rv["r"] == "un" and rv["op"] == "Neg":
            a = self.operand(env, rv["o"])
            if a[0] == "num":
                flip = {"-": "+", "+": "-", "0": "0", None: None}[a[2]]
                return num("(-%s)" % a[1], flip, a[3])
        if rv["r"] == "cast":
            v = self.operand(env, rv["o"])
            if v[0] == "num":
                return num(v[1], v[2], rv["ty"] in ("f64", "f32"))
            return v
        return super().rvalue(env, rv)

    def sym_bin(self, op, a, b):
        def sign_of(v):
            if v[0] == "num":
                return v[2]
            if v[0] == "int":
                return "0" if v[1] == 0 else ("+" if v[1] > 0 else "-")
            return None

        def term(v):
            if v[0] == "num":
                return v[1]
            if v[0] == "int":
                return str(v[1])
            raise OutOfFragment("non-numeric operand in kernel arithmetic")
        if op in ("Eq", "Ne", "Lt", "Le", "Gt", "Ge"):
            other_zero = is_zero_const(b) or is_zero_const(a)
            if not other_zero:
                # e.g. the `b == -1 && a == MIN` overflow guard rustc emits around integer division: not decided
                # by the sign domain; only a *branch* on it leaves the fragment (switch on UNKNOWN raises)
                return UNKNOWN
            v, flip = (a, False) if is_zero_const(b) else (b, True)
            s = sign_of(v)
            if s is None:
                raise OutOfFragment("comparison of %s with 0 but its sign is not tracked" % term(v))
            cmpv = {"-": -1, "0": 0, "+": 1}[s]
            if flip:
                cmpv = -cmpv
            res = {"Eq": cmpv == 0, "Ne": cmpv != 0, "Lt": cmpv < 0, "Le": cmpv <= 0, "Gt": cmpv > 0,
                   "Ge": cmpv >= 0}[op]
            self.events.append(("cmp", term(v), op, res))
            return boolean(res)
        isf = (a[0] == "num" and a[3]) or (b[0] == "num" and b[3]) or self.dest_is_float()
        if op == "Rem":
            self.events.append(("rem", term(a), term(b)))
            if sign_of(b) == "0":
                self.events.append(("rem-by-zero",))
            return num("r", self.syms.get("r"), isf)
        if op == "Div":
            self.events.append(("div", term(a), term(b)))
            if sign_of(b) == "0":
                self.events.append(("div-by-zero",))
            if isf:
                return num("(%s/%s)" % (term(a), term(b)), None, True)
            return num("q", self.syms.get("q"), False)
        if op in ("Add", "AddWithOverflow"):
            return num("(%s+%s)" % (term(a), term(b)), None, isf)
        if op in ("Sub", "SubWithOverflow"):
            return num("(%s-%s)" % (term(a), term(b)), None, isf)
        if op == "Mul":
            return num("(%s*%s)" % (term(a), term(b)), None, isf)
        raise OutOfFragment("operator %s on symbolic numbers" % op)

    def call(self, t, args, depth):
        f = t["f"]
        if "indirect" not in f:
            gen = f["path"]
            name = f.get("res") or gen
            last = gen.split("::")[-1]
            a0 = self.deref_all(args[0]) if args else None
            if last in ("wrapping_rem", "rem_euclid", "checked_rem") and a0 is not None and a0[0] == "num":
                if last != "wrapping_rem":
                    raise OutOfFragment("kernel uses %s; transfer function not defined" % last)
                b0 = self.deref_all(args[1])
                self.events.append(("rem", a0[1], b0[1] if b0[0] == "num" else str(b0)))
                if b0[0] == "num" and b0[2] == "0":
                    self.events.append(("rem-by-zero",))
                return num("r", self.syms.get("r"), False)
            if last == "floor" and a0 is not None and a0[0] == "num":
                return num("floor(%s)" % a0[1], None, True)
            if last in ("div_euclid", "wrapping_div", "checked_div", "signum", "abs", "saturating_sub",
                        "wrapping_sub", "wrapping_add") and a0 is not None and a0[0] == "num":
                raise OutOfFragment("kernel uses %s; transfer function not defined" % last)
            # unresolved trait calls in generic wrappers: instantiate with the type binding
            if "res" not in f and "trait" in f and self.tybind:
                selfty = self.tybind.get(f.get("self"), f.get("self"))
                ga = [self.tybind.get(g, g) for g in f.get("ga", [])]
                tr = f["trait"]
                cands = ["<%s as %s>::%s" % (selfty, tr, last)]
                if len(ga) > 1:
                    cands.insert(0, "<%s as %s<%s>>::%s" % (selfty, tr, ", ".join(ga[1:]), last))
                for cnd in cands:
                    if cnd in self.F.fns:
                        self.trace_calls.append(cnd)
                        return self.run(self.F.fns[cnd], args, depth + 1)
                raise OutOfFragment("cannot resolve trait call %s for %s" % (gen, selfty))
            if name.endswith("raise_zero_division"):
                self.events.append(("raise_zero_division",))
        return super().call(t, args, depth)
