"""C02 — every program that type-checks also builds (DESIGN.md §4 C02).

rustc acceptance of generated code for all programs is NOT decided. Decided structural clauses:
  1 STRICT     every lowered program was type-checked first (shared engine with C03.DEPCHECK)
  2 REPARSE    emit_program returns text only on the success edge of syn::parse2
  3 ERRARM     no construct the checker may accept is unconditionally refused by lowering
  4 LINK       every `incan_stdlib::` / `incan_derive::` path spliced by an emitter template names a `pub` item of
               the runtime crate (facts of the runtime crates with all features); every external crate mentioned by
               a template is one the generated manifest can declare
  5 IMPORTS    the import tracker that decides `use std::collections::{HashMap, HashSet}` visits every IR node kind
               that can contain a dict/set literal
  6 CASTGROUP  `(x) as f64` produced by NumericConversion is emitted as one parenthesised token group, so it can be
               the left operand of `<` or the receiver of `.powf(..)`
  7 DERIVES    every derive name the emitter can print resolves to a derive macro in scope of the generated file
"""
import c03
from engines import (AST, IR, arm_regions, blocks_dominated_by_edge, callee_generic, callee_name, const_str,
                     discr_switches, dominated_by_any_edge, exhaust, op_place, postdominators, primary_dispatch,
                     quote_paths, quote_token_events, region_outputs, short, variant_edges, SUCCESS_VARIANTS,
                     all_string_constants, bearing, field_is_bearing)
from harness import Finding, Report

CONFIGS = {"quick": ["default", "stdlib_web"], "thorough": ["default", "stdlib_web"]}

EXPLANATION = (
    "Static analysis of the pipeline between `--check` and rustc. (1) dominance: each AstLowering::lower_program "
    "call is dominated by the Ok edge of a type check of the same program; (2) in IrEmitter::emit_program every "
    "Ok(String) is dominated by the Ok edge of syn::parse2; (3) per Statement/Expr/Declaration variant, a lowering "
    "arm that can only return Err while the checker's arm can succeed is a finding; (4) the identifier paths of all "
    "quote! templates in src/backend are reconstructed from MIR and each incan_stdlib/incan_derive path is resolved "
    "through the runtime crates' module tables (extracted with features json+web; feature-gated modules only there), "
    "external crates are checked against the manifest templates; (5) the ImportTracker walker's match arms are "
    "checked for IR variants with sub-expressions that fall into `_ => {}`; (6) the token shape of "
    "NumericConversion::apply; (7) the derive names reachable in emit_struct/emit_enum are compared with the derive "
    "macros imported by the generated prelude. That rustc accepts the generated file for every accepted program "
    "(types of template arguments, borrow checking) is not decided.")

EXTERNAL_OK = {"std", "core", "alloc"}


def run(facts, rep, tier):
    F = facts["default"]
    R = facts.get("stdlib_web")
    rep.assumptions += [
        "generated projects depend on the in-repo incan_stdlib / incan_derive by path (generate_cargo_toml)",
        "rustc nightly MIR describes the program the stable toolchain builds",
    ]
    # 1 STRICT
    sub = Report("C02")
    c03.depcheck(F, sub)
    for f in sub.findings:
        f.rule = "STRICT"
        f.key = f.key.replace("DEPCHECK|", "STRICT|")
        rep.add(f)
    rep.obligations += sub.obligations
    rep.evaluations += sub.evaluations
    rep.discharged += sub.discharged
    rep.nontrivial |= {("STRICT", i) for (_, i) in sub.nontrivial}
    rep.samples += [dict(s, rule="STRICT") for s in sub.samples[:4]]
    rep.rules += [dict(r, rule="STRICT") for r in sub.rules]
    reparse(F, rep)
    errarm(F, rep)
    link(F, R, rep)
    imports(F, rep)
    walkers(F, rep)
    castgroup(F, rep)
    derives(F, R, rep)


def reparse(F, rep):
    eps = [F.fns[p] for p in F.fns if p.endswith("IrEmitter<'a>>::emit_program")]
    if not rep.anchor("REPARSE", "IrEmitter::emit_program", eps):
        return
    f = eps[0]
    rep.functions.add(f.path)
    parses = [(bi, t) for bi, t in f.calls() if (callee_name(t) or "").startswith("syn::parse2")
              or (callee_generic(t) or "").startswith("syn::parse2") or (callee_generic(t) or "").endswith("syn::parse2")]
    if not rep.anchor("REPARSE", "syn::parse2 call in emit_program", parses):
        return
    dom = set()
    for bi, t in parses:
        if t["d"]["p"]:
            continue
        edges = variant_edges(f, t["d"]["l"], SUCCESS_VARIANTS)
        # `.map_err(..)?` chains: follow the mapped result too
        for b2, t2 in f.calls():
            g = callee_generic(t2) or ""
            if g.endswith("::map_err") and t2["args"] and op_place(t2["args"][0]) is not None and \
                    op_place(t2["args"][0])["l"] == t["d"]["l"] and not t2["d"]["p"]:
                edges += variant_edges(f, t2["d"]["l"], SUCCESS_VARIANTS)
        dom |= dominated_by_any_edge(f, edges)
    oks = [(bi, s.get("ln")) for bi, b in enumerate(f.blocks) for s in b["st"]
           if s["s"] == "assign" and s["rv"]["r"] == "agg" and s["rv"].get("adt", "").endswith("result::Result")
           and s["rv"]["variant"] == "Ok" and not s["d"]["p"] and s["d"]["l"] == 0]
    rep.floor("REPARSE", "Ok(..) returns of emit_program", len(oks), 1)
    for (bi, ln) in oks:
        ok = bi in dom
        rep.oblige("REPARSE", "emit_program:Ok@%s" % ln, ok, sample={"rule": "REPARSE", "line": ln,
                                                                    "dominated_by_parse2_ok": ok})
        if not ok:
            rep.add(Finding("REPARSE", "REPARSE|emit_program|Ok",
                            "emit_program can return Ok(text) on a path that is not dominated by a successful "
                            "syn::parse2 of the generated tokens: malformed Rust reaches the user's project",
                            file=f.file, line=ln, fn=f.path))


def always_err_arms(F, f, enum_adt):
    sw = primary_dispatch(f, enum_adt)
    if sw is None:
        return None, {}
    pdom = postdominators(f)
    join = pdom.get(sw["block"], set()) - {sw["block"]}
    out = {}

    def builds(b, variant):
        return any(s["s"] == "assign" and s["rv"]["r"] == "agg" and s["rv"].get("variant") == variant
                   and s["rv"].get("adt", "").endswith("result::Result") for s in f.stmts(b))
    for v, tgt in sw["explicit"].items():
        region = f.reachable(tgt, avoid=join)
        everything = f.reachable(tgt)
        builds_ok = any(builds(b, "Ok") for b in everything)
        builds_err = any(builds(b, "Err") for b in region)
        calls_out = any(f.term(b)["t"] == "call" and (callee_name(f.term(b)) or "").startswith("incan::backend")
                        for b in region)
        out[v] = builds_err and not builds_ok and not calls_out
    return sw, out


def errarm(F, rep):
    n = 0
    for (lsuf, csuf, adt) in (("AstLowering>::lower_statement", "check_statement", AST + "Statement"),
                              ("AstLowering>::lower_expr", "check_expr", AST + "Expr"),
                              ("AstLowering>::lower_declaration", "check_declaration", AST + "Declaration")):
        lf = F.one_fn(lsuf)
        cf = F.one_fn(csuf)
        if not rep.anchor("ERRARM", lsuf, lf) or not rep.anchor("ERRARM", csuf, cf):
            continue
        rep.functions.update([lf.path, cf.path])
        sw, arms = always_err_arms(F, lf, adt)
        if not rep.anchor("ERRARM", "main match of " + lsuf, sw):
            continue
        # does the checker's arm push an error unconditionally?
        csw = primary_dispatch(cf, adt)
        cregs = arm_regions(cf, csw) if csw else {}
        cpdom = postdominators(cf)
        for v, always in sorted(arms.items()):
            n += 1
            inst = "%s::%s" % (short(adt), v)
            if not always:
                rep.oblige("ERRARM", inst, True)
                continue
            # checker arm: an error push that post-dominates the arm head => checker always rejects too
            if lsuf.endswith("lower_declaration") and caller_filters(F, v):
                rep.oblige("ERRARM", inst, True)
                rep.exempt("ERRARM", inst, "lower_program handles Declaration::%s in its own arm and never passes it "
                                           "to lower_declaration (checked: that arm does not call it)" % v)
                continue
            creg = cregs.get(v, set())
            head = csw["explicit"].get(v) if csw else None
            pushes = [b for b in creg if cf.term(b)["t"] == "call" and
                      (callee_generic(cf.term(b)) or "").endswith("::push") and
                      "CompileError" in (cf.term(b)["f"].get("inst", "") + cf.term(b)["f"].get("self", ""))]
            checker_rejects = head is not None and any(p in cpdom.get(head, set()) for p in pushes)
            ok = checker_rejects
            rep.oblige("ERRARM", inst, ok, sample={"rule": "ERRARM", "construct": inst, "lowering": "always Err",
                                                   "checker_always_rejects": checker_rejects})
            if not ok:
                rep.add(Finding("ERRARM", "ERRARM|%s|%s" % (lsuf.split("::")[-1], inst),
                                "lowering refuses %s unconditionally (its arm can only return Err) while the "
                                "checker's arm for the same construct can succeed: `incan --check` accepts a program "
                                "that `incan build` then rejects with an internal lowering error" % inst,
                                file=lf.file, line=sw["ln"], fn=lf.path))
    rep.floor("ERRARM", "lowering arms classified", n, 45)


def caller_filters(F, variant):
    """lower_program's own arm for `variant` does not reach lower_declaration."""
    lp = F.one_fn("AstLowering::lower_program")
    if lp is None:
        return False
    ok = False
    for s in discr_switches(lp):
        if s["adt"] != AST + "Declaration" or variant not in s["explicit"]:
            continue
        regs = arm_regions(lp, s)
        calls = [callee_name(lp.term(b)) or "" for b in regs.get(variant, set()) if lp.term(b)["t"] == "call"]
        if any(c.endswith("lower_declaration") for c in calls):
            return False
        # and the arm that does call lower_declaration is a different one
        others = [v for v, blocks in regs.items() if v != variant and
                  any((callee_name(lp.term(b)) or "").endswith("lower_declaration") for b in blocks
                      if lp.term(b)["t"] == "call")]
        if others:
            ok = True
    return ok


def resolve_path(R, segs):
    """Resolve an absolute path through the runtime crates' module tables -> (found, visible)."""
    cur = segs[0]
    if cur not in R.mods:
        return False, False
    visible = True
    for i, name in enumerate(segs[1:], 1):
        m = R.mods.get(cur)
        if m is None:
            # the path continues below a non-module item (assoc fn, enum variant): accept
            return True, visible
        cands = [c for c in m["children"] if c["name"] == name]
        if not cands:
            return False, False
        pubc = [c for c in cands if c["vis"] == "pub"]
        if not pubc:
            visible = False
        c = (pubc or cands)[0]
        cur = c["target"]
    return True, visible


def link(F, R, rep):
    if not rep.anchor("LINK", "runtime crate facts (config stdlib_web)", R and R.mods.get("incan_stdlib")):
        return
    D = F  # default-feature facts of the runtime crates are part of the workspace extraction
    manifest = F.one_fn("ProjectGenerator::generate_cargo_toml")
    declarable = set()
    if rep.anchor("LINK", "ProjectGenerator::generate_cargo_toml", manifest):
        for _, v in all_string_constants(manifest):
            for ln in v.split("\n"):
                ln = ln.strip()
                if "=" in ln and not ln.startswith("[") and not ln.startswith("#"):
                    declarable.add(ln.split("=")[0].strip().split(" ")[0])
        from engines import fn_fmt_templates
        for tmpl in fn_fmt_templates(manifest):
            for ln in tmpl.split("\n"):
                ln = ln.strip()
                if "=" in ln and not ln.startswith("[") and not ln.startswith("#"):
                    declarable.add(ln.split("=")[0].strip().split(" ")[0])
    n_paths = 0
    seen = set()
    for p in sorted(F.fns):
        if not p.startswith("incan::backend"):
            continue
        f = F.fns[p]
        for segs, ln in quote_paths(f):
            head = segs[0]
            if head in ("incan_stdlib", "incan_derive"):
                key = "::".join(segs)
                if key in seen:
                    continue
                seen.add(key)
                n_paths += 1
                found, vis = resolve_path(R, list(segs))
                gated = len(segs) > 1 and segs[1] in ("json", "web")
                found_default, vis_default = resolve_path(D, list(segs)) if not gated else (True, True)
                ok = found and vis and found_default and vis_default
                rep.oblige("LINK", "path:" + key, ok, sample={"rule": "LINK", "path": key, "file": f.file,
                                                              "line": ln, "exists": found, "pub": vis,
                                                              "feature_gated": gated})
                rep.functions.add(p)
                if not ok:
                    why = "does not exist" if not found else ("is not `pub`" if not vis else
                                                              "exists only with optional features the manifest does "
                                                              "not always enable")
                    rep.add(Finding("LINK", "LINK|path|%s" % key,
                                    "the emitter splices `%s` into generated code but that item %s in the runtime "
                                    "crate: every program reaching this template fails to build" % (key, why),
                                    file=f.file, line=ln, fn=p))
            elif head in ("serde", "serde_json", "tokio", "axum") or (head not in EXTERNAL_OK and head.islower()
                                                                       and len(segs) >= 2 and head in
                                                                       ("rand", "regex", "chrono", "uuid")):
                key = "crate:" + head
                if key in seen:
                    continue
                seen.add(key)
                ok = head in declarable
                rep.oblige("LINK", key, ok, sample={"rule": "LINK", "crate": head, "first_use": "%s:%s" % (f.file, ln),
                                                    "manifest_can_declare": ok})
                if not ok:
                    rep.add(Finding("LINK", "LINK|crate|%s" % head,
                                    "emitter templates reference crate `%s`, which generate_cargo_toml can never "
                                    "declare" % head, file=f.file, line=ln, fn=p))
    rep.floor("LINK", "distinct runtime-crate paths in emitter templates", n_paths, 35)


def imports(F, rep):
    ir_uni = [a for a in F.adts if any(a.startswith(IR + m) for m in ("expr::", "stmt::", "decl::"))]
    bear = bearing(F, ir_uni, [IR + "expr::TypedExpr", IR + "stmt::IrStmt"])
    import c01
    built = c01.constructed_variants(F)
    for (suf, adt) in (("ImportTracker::scan_expr", IR + "expr::IrExprKind"),
                       ("ImportTracker::scan_stmt", IR + "stmt::IrStmtKind"),
                       ("ImportTracker::scan_decl", IR + "decl::IrDeclKind")):
        f = F.one_fn(suf)
        if not rep.anchor("IMPORTS", suf, f):
            continue
        rep.functions.add(f.path)
        sw = primary_dispatch(f, adt)
        if not rep.anchor("IMPORTS", "main match of " + suf, sw):
            continue
        for v in F.adts[adt]["variants"]:
            name = v["name"]
            inst = "%s:%s::%s" % (suf.split("::")[-1], short(adt), name)
            if name in sw["explicit"] or not sw["otherwise_live"]:
                rep.oblige("IMPORTS", inst, True)
                continue
            child = any(field_is_bearing(fl, bear) or any(a in (IR + "expr::TypedExpr", IR + "stmt::IrStmt",
                                                                IR + "decl::IrFunction", IR + "decl::IrImpl",
                                                                IR + "decl::IrStruct", IR + "decl::IrTrait")
                                                          for a in fl["adts"]) for fl in v["fields"])
            if not child or (adt, name) not in built:
                rep.oblige("IMPORTS", inst, True)
                continue
            rep.oblige("IMPORTS", inst, False, sample={"rule": "IMPORTS", "walker": suf, "variant": name,
                                                       "has_sub_expressions": True, "visited": False})
            rep.add(Finding("IMPORTS", "IMPORTS|%s|%s::%s" % (suf.split("::")[-1], short(adt), name),
                            "the import tracker's %s treats %s::%s as a leaf (`_ => {}`), although it contains "
                            "sub-expressions: a dict/set literal nested inside it is emitted as unqualified "
                            "`HashMap`/`HashSet` without the `use std::collections::…` line, and the generated file "
                            "does not build" % (suf.split("::")[-1], short(adt), name),
                            file=f.file, line=sw["ln"], fn=f.path))


WALKER_EXEMPT = {
    "scan_stmt:IrStmtKind::Assign.target": "assignment targets are places (variable, field, index); a dict/set "
                                           "literal cannot occur in one that the checker accepts",
    "scan_stmt:IrStmtKind::For.pattern": "loop patterns bind names; they contain no dict/set literal",
    "scan_stmt_for_param_writes:IrStmtKind::For.pattern": "loop patterns bind names; they cannot write a parameter",
    "scan_expr_for_param_writes:MatchArm.pattern": "match patterns bind names / compare literals; they cannot write a "
                                                   "parameter",
    "scan_expr:MatchArm.pattern": "patterns contain no dict/set literal",
}


def walkers(F, rep):
    """Auxiliary IR walkers that decide emission details (imports, `mut` on parameters, iter vs iter_mut)."""
    from engines import walker_check
    IRE, IRS = IR + "expr::IrExprKind", IR + "stmt::IrStmtKind"
    TE, ST = IR + "expr::TypedExpr", IR + "stmt::IrStmt"
    ir_uni = [a for a in F.adts if any(a.startswith(IR + m) for m in ("expr::", "stmt::", "decl::"))]
    bear = bearing(F, ir_uni, [TE, ST])
    imp = ("ImportTracker::scan_expr", "ImportTracker::scan_stmt", "ImportTracker::scan_function")
    pw = ("IrEmitter<'a>>::scan_expr_for_param_writes", "IrEmitter<'a>>::scan_stmt_for_param_writes")
    table = [
        ("ImportTracker::scan_expr", IRE, (TE, ST), imp, False),
        ("ImportTracker::scan_stmt", IRS, (TE, ST), imp, False),
        ("for_body_needs_mut_iteration::stmt_mutates_var", IRS, (ST,), (), True),
        ("IrEmitter<'a>>::scan_stmt_for_param_writes", IRS, (TE, ST), pw, False),
        ("IrEmitter<'a>>::scan_expr_for_param_writes", IRE, (TE, ST), pw, False),
    ]
    n = 0
    for suf, adt, kids, family, direct in table:
        f = F.one_fn(suf)
        if not rep.anchor("WALKER", suf, f):
            continue
        n += 1
        rep.functions.add(f.path)
        walker_check(F, rep, "WALKER", f, adt, bear, kids, exempt=WALKER_EXEMPT, family=family, direct_only=direct)
    rep.floor("WALKER", "auxiliary IR walkers checked", n, 5)


def castgroup(F, rep):
    f = F.one_fn("NumericConversion::apply")
    if not rep.anchor("CASTGROUP", "NumericConversion::apply", f):
        return
    rep.functions.add(f.path)
    sw = primary_dispatch(f, IR + "conversions::NumericConversion")
    regs = arm_regions(f, sw) if sw else {}
    arm = regs.get("ToFloat")
    if not rep.anchor("CASTGROUP", "ToFloat arm", arm):
        return
    ev = [e for e in quote_token_events(f) if e[0] in arm and e[1] in ("ident", "punct", "colon2")]
    kinds = [(k, t) for (_, k, t, _) in ev]
    has_as = ("ident", "as") in kinds
    last_is_group = bool(kinds) and kinds[-1] == ("punct", "group")
    ok = (not has_as) or last_is_group
    rep.oblige("CASTGROUP", "NumericConversion::ToFloat", ok, sample={"rule": "CASTGROUP", "tokens": kinds})
    if not ok:
        rep.add(Finding("CASTGROUP", "CASTGROUP|NumericConversion::apply|ToFloat",
                        "the float promotion is emitted as the bare token sequence `( x ) as f64`: as the left operand "
                        "of a comparison it reads `(a) as f64 < b` (rustc/syn parse `<` as generic arguments) and as "
                        "the receiver of pow it reads `(a) as f64.powf(..)` — `c = a < b` with int a, float b and "
                        "`c = a ** n` fail with a syn parse error although --check accepts them",
                        file=f.file, line=sw["ln"], fn=f.path))


def derives(F, R, rep):
    """Derive names the emitter can print vs derive macros in scope of the generated file."""
    # macros in scope: std derives + what the generated prelude imports
    std_derives = {"Debug", "Clone", "Copy", "PartialEq", "Eq", "PartialOrd", "Ord", "Hash", "Default"}
    in_scope = set(std_derives)
    for p in F.fns:
        if not p.startswith("incan::backend::ir::emit"):
            continue
        for segs, ln in quote_paths(F.fns[p]):
            if segs[0] in ("serde", "incan_derive") and len(segs) == 2:
                in_scope.add(segs[1])
    # `use incan_derive::{FieldInfo, IncanClass}` is spliced with a brace group, not as a path: read idents
    ep = [F.fns[p] for p in F.fns if p.endswith("IrEmitter<'a>>::emit_program_tokens") or
          p.endswith("IrEmitter<'a>>::emit_program")]
    for f in ep:
        for (_, k, t, _) in quote_token_events(f):
            if k == "ident" and t in ("FieldInfo", "IncanClass", "IncanJson", "IncanReflect", "Serialize",
                                      "Deserialize"):
                in_scope.add(t)
    if R is not None:
        pre = R.mods.get("incan_stdlib::prelude")
        if pre:
            for c in pre["children"]:
                if c["vis"] == "pub" and c["target"].startswith("incan_derive::"):
                    in_scope.add(c["name"])
    # names the emitter can print: the DeriveId registry's Rust names + literal idents pushed next to `derive`
    reg = F.fn("incan_core::lang::derives::DERIVES")
    names = set()
    if rep.anchor("DERIVES", "incan_core::lang::derives::DERIVES", reg):
        for b in range(len(reg.blocks)):
            ids = [s["rv"]["variant"] for s in reg.stmts(b) if s["s"] == "assign" and s["rv"]["r"] == "agg"
                   and s["rv"].get("adt", "").endswith("derives::DeriveId")]
            if len(ids) == 1:
                names.add(ids[0])
    rep.floor("DERIVES", "derive ids in the registry", len(names), 8)
    # names the struct/enum emitters map or filter explicitly (everything else is printed verbatim)
    handled = set()
    for p, f in F.fns.items():
        if "emit_struct" in p or "emit_enum" in p:
            for s in discr_switches(f):
                if s["adt"].endswith("derives::DeriveId"):
                    handled |= set(s["explicit"])
            for b in f.blocks:
                for st in b["st"]:
                    if st["s"] == "assign" and st["rv"]["r"] == "agg" and \
                            st["rv"].get("adt", "").endswith("derives::DeriveId"):
                        handled.add(st["rv"]["variant"])
    passthrough = names - handled
    rep.notes.append({"derives_in_scope": sorted(in_scope), "derive_ids": sorted(names),
                      "passed_to_rust_derive_list": sorted(passthrough)})
    rep.anchor("DERIVES", "derive ids mapped/filtered explicitly by emit_struct", handled)
    for v in sorted(names):
        inst = "derive:" + v
        if v in handled:
            rep.oblige("DERIVES", inst, True, sample={"rule": "DERIVES", "derive": v, "handling": "mapped or "
                                                      "filtered explicitly by the emitter"})
            continue
        ok = v in in_scope
        rep.oblige("DERIVES", inst, ok, sample={"rule": "DERIVES", "derive": v, "macro_in_scope": ok})
        if not ok:
            rep.add(Finding("DERIVES", "DERIVES|%s" % v,
                            "`@derive(%s)` is passed through to `#[derive(%s, ..)]` in the generated struct, but no "
                            "derive macro of that name is in scope of the generated file (std has no derive for it, "
                            "the prelude imports none): rustc reports `cannot find derive macro`" % (v, v),
                            file="src/backend/ir/lower/decl.rs", fn="extract_derives"))
