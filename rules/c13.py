"""C13 — any legal Incan name is safe to use (DESIGN.md §4 C13).

Behavioural invariance under renaming is NOT decided. Decided structural clauses:
  1 ESCAPE    every identifier the emitter builds from a user-chosen name (format_ident!/Ident::new) is a constant,
              a generated prefix + name, or passes through escape_keyword
  2 KWTABLE   the escape table covers rustc's own keyword list (dumped from the compiler by factdrv) for the edition
              generated projects use, never raw-escapes a word rustc cannot raw-escape, and its lookup is
              order-insensitive or the table is sorted
  3 SPELL     lowering/emission do not branch on the spelling of a user identifier (capitalisation heuristics)
  4 REGISTRY  every nominal declaration kind (model, class, newtype) registers its name for constructor detection
  5 ESCKEY    the escaped spelling never reaches a map / set lookup or a name comparison (metadata is keyed by the
              Incan name)
"""
import re

from engines import (AST, arm_regions, backward_slice, body_and_closures, callee_generic, callee_name, const_str,
                     discr_switches, fmt_pieces, iter_operands_rv, op_place, place_fields)
from harness import Finding

EXPLANATION = (
    "Static analysis of the Rust emitter and lowering. (1) backward slice from every quote::__private::mk_ident / "
    "Ident::new call in src/backend: the format template and the provenance of the interpolated name are recovered "
    "from MIR; a name that comes from an IR/AST field and reaches the identifier without passing escape_keyword is "
    "a finding unless the template adds a generated prefix; (2) the escape table's strings are read from the const's "
    "MIR and compared with rustc's keyword list for edition 2021 (facts dumped by the driver from rustc_span), "
    "including which words cannot be raw identifiers; binary_search lookups require a sorted table; (3) calls of "
    "char::is_uppercase/is_lowercase/str::starts_with on user names in lowering/emission are enumerated and must be "
    "in the reviewed list; (4) each nominal declaration arm inserts into struct_names. Renaming invariance of "
    "behaviour itself is not decided.")

NAME_FIELDS = re.compile(r"(name|field|variant|method|alias|target_type|trait_name|handler_name|\.0)$")

# reviewed spelling tests: (function short, callee) -> reason
SPELL_REVIEWED = {
}


def fn_short(p):
    parts = p.split("::")
    out = []
    for x in reversed(parts):
        out.append(x)
        if not x.startswith("{"):
            break
    return "::".join(reversed(out))


def slice_info(F, f, start):
    locs, calls, args = backward_slice(f, [start])
    flds, consts, tmpl = set(), set(), []
    for b in f.blocks:
        for s in b["st"]:
            if s["s"] == "assign" and s["d"]["l"] in locs:
                rv = s["rv"]
                pls = []
                for o in iter_operands_rv(rv):
                    if op_place(o):
                        pls.append(op_place(o))
                    v = const_str(o)
                    if v is not None:
                        consts.add(v)
                    if "c" in o and o["c"].startswith('b"'):
                        p = fmt_pieces(o["c"])
                        if p:
                            tmpl.append("".join(p))
                if "p" in rv and isinstance(rv["p"], dict):
                    pls.append(rv["p"])
                for pl in pls:
                    for (adt, v, fl) in place_fields(pl):
                        if adt.startswith("incan::backend") or adt.startswith("incan_syntax::ast"):
                            flds.add("%s::%s.%s" % (adt.split("::")[-1], v, fl))
    for _, ct in calls:
        for o in ct["args"]:
            if "c" in o and o["c"].startswith('b"'):
                p = fmt_pieces(o["c"])
                if p:
                    tmpl.append("".join(p))
            v = const_str(o)
            if v is not None:
                consts.add(v)
    names = [(callee_name(ct) or callee_generic(ct) or "") for _, ct in calls]
    return flds, consts, tmpl, names, args


def run(facts, rep, tier):
    F = facts["default"]
    rep.assumptions += [
        "generated projects use edition 2021 (src/backend/project.rs manifest template)",
        "rustc_span's keyword table (dumped by factdrv from the nightly compiler) equals the stable compiler's for "
        "edition 2021",
    ]
    escape_sites(F, rep)
    escaped_as_key(F, rep)
    kwtable(F, rep)
    spell(F, rep)
    registry(F, rep)
    methodrecv(F, rep)
    digitclass(F, rep)
    parsedname(F, rep)


VIEW_CALLS = ("Deref::deref", "::as_str", "::as_ref", "::borrow", "Clone::clone", "ToString::to_string",
              "ToOwned::to_owned", "::into", "From<", "::as_string", "::into_owned", "Cow<")
KEY_METHODS = ("get", "get_mut", "contains_key", "remove", "insert", "entry", "contains", "get_key_value")


def is_key_sink(g):
    last = g.split("::")[-1].split("<")[0]
    if any(c in g for c in ("HashMap::<", "HashSet::<", "BTreeMap::<", "BTreeSet::<")) and last in KEY_METHODS:
        return True
    if "PartialEq" in g and last in ("eq", "ne"):
        return True
    return ("str" in g or "String" in g) and last in ("starts_with", "ends_with", "eq_ignore_ascii_case")


def escaped_as_key(F, rep):
    """ESCKEY — the escaped spelling (`r#final`) exists only for the Rust text: the result of escape_keyword may flow
    into identifier construction, never into a map / set lookup or a name comparison. The emitter's metadata
    (struct_field_names, struct_field_defaults, enum tables ...) is keyed by the Incan name, so a lookup with the
    escaped spelling silently misses for exactly the names that need escaping."""
    from engines import derived_locals
    n = 0
    for p in sorted(F.fns):
        if not p.startswith("incan::backend"):
            continue
        f = F.fns[p]
        roots = [t["d"]["l"] for bi, t in f.calls()
                 if (callee_name(t) or "").endswith("::escape_keyword") and not t["d"]["p"]]
        # the text of an identifier that was built from an escaped name is the escaped spelling too
        for bi, t in f.calls():
            g0 = callee_generic(t) or ""
            if g0.endswith("ToString::to_string") and t["args"] and not t["d"]["p"]:
                pl0 = op_place(t["args"][0])
                if pl0 is not None and "proc_macro2::Ident" in f.local_ty(pl0["l"]) and roots:
                    roots.append(t["d"]["l"])
        if not roots:
            continue
        tainted = set()
        for r in roots:
            tainted |= derived_locals(f, r)
        changed = True
        while changed:
            changed = False
            for b in f.blocks:
                for st in b["st"]:
                    if st["s"] == "assign" and not st["d"]["p"] and st["d"]["l"] not in tainted and \
                            st["rv"]["r"] == "agg" and st["rv"].get("ak") == "closure" and \
                            any(op_place(o) is not None and op_place(o)["l"] in tainted for o in st["rv"]["ops"]):
                        tainted |= derived_locals(f, st["d"]["l"])
                        changed = True
            for bi, t in f.calls():
                if t["d"]["p"] or t["d"]["l"] in tainted:
                    continue
                g = callee_generic(t) or callee_name(t) or ""
                # a local closure that captured the escaped spelling hands it on in what it returns
                is_closure_call = any(g.endswith(x) for x in ("Fn::call", "FnMut::call_mut", "FnOnce::call_once"))
                if not any(v in g for v in VIEW_CALLS) and not is_closure_call:
                    continue
                if any(op_place(o) is not None and op_place(o)["l"] in tainted for o in
                       (t["args"][:1] if is_closure_call else t["args"])):
                    tainted |= derived_locals(f, t["d"]["l"])
                    changed = True
        per = 0
        for bi, t in f.calls():
            g = callee_generic(t) or callee_name(t) or ""
            # a crate-local lookup method (FunctionRegistry::get and the like) is a key sink like the std ones: it is
            # a thin wrapper over a map keyed by the Incan name
            local_lookup = (callee_name(t) or "") in F.fns and g.split("::")[-1].split("<")[0] in KEY_METHODS \
                and len(t["args"]) >= 2
            if not is_key_sink(g) and not local_lookup:
                continue
            hit = [i for i, o in enumerate(t["args"]) if op_place(o) is not None and op_place(o)["l"] in tainted]
            if local_lookup:
                hit = [i for i in hit if i >= 1]
            # argument 0 of a map method is the map itself
            hit = [i for i in hit if not (i == 0 and ("HashMap" in g or "HashSet" in g or "BTree" in g))]
            if not hit:
                continue
            per += 1
            inst = "%s|%s#%d" % (fn_short(p), g.split("::")[-1], per)
            rep.oblige("ESCKEY", inst, False)
            rep.add(Finding("ESCKEY", "ESCKEY|%s" % inst,
                            "in %s the result of escape_keyword reaches `%s`: metadata is keyed by the Incan name, so "
                            "for a type/field named with a Rust keyword (`final`, `struct`, ...) the lookup uses "
                            "`r#final` and misses — the emitter then silently takes its fallback path"
                            % (fn_short(p), g.split("::")[-1]), file=f.file, line=t.get("ln"), fn=p))
        n += len(roots)
        if not per:
            rep.oblige("ESCKEY", fn_short(p), True, sample={"rule": "ESCKEY", "fn": p, "escape_keyword_calls": len(roots),
                                                           "reaches_lookup_or_comparison": False})
    rep.floor("ESCKEY", "escape_keyword call sites in the backend", n, 10)


def escape_sites(F, rep):
    n = 0
    for p in sorted(F.fns):
        if not p.startswith("incan::backend"):
            continue
        f = F.fns[p]
        per = 0
        for bi, t in f.calls():
            cn = callee_name(t) or ""
            if not (cn.endswith("quote::__private::mk_ident") or cn.endswith("proc_macro2::Ident::new")):
                continue
            per += 1
            n += 1
            rep.functions.add(p)
            pl = op_place(t["args"][0])
            if pl is None:
                v = const_str(t["args"][0])
                rep.oblige("ESCAPE", "%s#%d" % (fn_short(p), per), True)
                continue
            flds, consts, tmpl, names, args = slice_info(F, f, pl["l"])
            escaped = any(x.endswith("escape_keyword") for x in names)
            prefixed = any(x.replace("{}", "") != "" for x in tmpl)
            user = bool(flds) or bool(args)
            inst = "%s#%d" % (fn_short(p), per)
            ok = escaped or prefixed or not user
            how = "escape_keyword" if escaped else ("generated prefix %r" % [x for x in tmpl if x != "{}"][:1]
                                                    if prefixed else ("constant" if not user else "RAW"))
            rep.oblige("ESCAPE", inst, ok, sample={"rule": "ESCAPE", "site": inst, "file": f.file,
                                                   "line": t.get("ln"), "name_from": sorted(flds)[:3] or
                                                   ["argument %s" % sorted(args)], "via": how})
            rep.call_sites += 1
            if not ok:
                src = ", ".join(sorted(x for x in flds if NAME_FIELDS.search(x))[:2]) or \
                    ", ".join(sorted(flds)[:2]) or "a function argument"
                rep.add(Finding("ESCAPE", "ESCAPE|%s" % inst,
                                "identifier built from a user-chosen name (%s) without escape_keyword: if the name "
                                "is a Rust keyword that Incan does not reserve (ref, move, loop, mod, struct, ...) "
                                "the generated file does not parse" % src, file=f.file, line=t.get("ln"), fn=p))
    rep.floor("ESCAPE", "identifier construction sites in the backend", n, 55)


def const_table(F, const_path):
    f = F.fn(const_path)
    if f is None:
        return None
    out = []
    for b in f.blocks:
        for s in b["st"]:
            if s["s"] == "assign" and s["rv"]["r"] == "agg" and s["rv"].get("ak") == "array":
                for o in s["rv"]["ops"]:
                    v = const_str(o)
                    if v is not None:
                        out.append(v)
    return out


def kwtable(F, rep):
    tab = const_table(F, "incan_core::lang::rust_keywords::RUST_KEYWORDS")
    if not rep.anchor("KWTABLE", "incan_core::lang::rust_keywords::RUST_KEYWORDS", tab):
        return
    rep.floor("KWTABLE", "entries of RUST_KEYWORDS", len(tab), 40)
    rep.anchor("KWTABLE", "rustc keyword facts", F.kw)
    rustc = {k["kw"]: k for k in F.kw if k["reserved2021"] and k["kw"] not in ("$crate", "{{root}}", "_")}
    rep.floor("KWTABLE", "rustc keywords reserved in edition 2021", len(rustc), 50)
    # Incan's own reserved words can never reach the emitter as identifiers
    incan_kw = set()
    kt = F.fn("incan_core::lang::keywords::KEYWORDS")
    if rep.anchor("KWTABLE", "incan_core::lang::keywords::KEYWORDS", kt):
        # per registry entry (one block each): the KeywordId aggregate and its spelling / alias strings
        for b in range(len(kt.blocks)):
            has_id = any(s["s"] == "assign" and s["rv"]["r"] == "agg" and
                         s["rv"].get("adt", "").endswith("keywords::KeywordId") for s in kt.stmts(b))
            if not has_id:
                continue
            for s in kt.stmts(b):
                if s["s"] != "assign":
                    continue
                for o in iter_operands_rv(s["rv"]):
                    v = const_str(o)
                    if v and " " not in v:
                        incan_kw.add(v)
            t = kt.term(b)
            if t["t"] == "call":
                for o in t["args"]:
                    v = const_str(o)
                    if v and " " not in v:
                        incan_kw.add(v)
        rep.floor("KWTABLE", "Incan reserved words read from the keyword registry", len(incan_kw), 40)
    esc = F.one_fn("IrEmitter::<'a>::escape_keyword") or F.one_fn("escape_keyword")
    special = set()
    if rep.anchor("KWTABLE", "IrEmitter::escape_keyword", esc):
        from engines import all_string_constants
        special = {v for _, v in all_string_constants(esc)} & {"self", "Self", "super", "crate"}
        raw_prefix = any("r#" in x for x in _templates(esc))
        rep.oblige("KWTABLE", "escape_keyword:raw-prefix", raw_prefix)
        if not raw_prefix:
            rep.add(Finding("KWTABLE", "KWTABLE|escape_keyword|raw-prefix",
                            "escape_keyword no longer produces an `r#` raw identifier", file=esc.file, line=esc.line,
                            fn=esc.path))
        calls = [callee_name(t) or "" for _, t in esc.calls()]
        uses = any(c.endswith("rust_keywords::is_keyword") for c in calls)
        rep.oblige("KWTABLE", "escape_keyword:uses-table", uses)
        if not uses:
            rep.add(Finding("KWTABLE", "KWTABLE|escape_keyword|table",
                            "escape_keyword no longer consults rust_keywords::is_keyword", file=esc.file,
                            line=esc.line, fn=esc.path))
    for kw, info in sorted(rustc.items()):
        inst = "kw:" + kw
        if kw in incan_kw:
            rep.oblige("KWTABLE", inst, True)
            rep.exempt("KWTABLE", inst, "reserved word of Incan itself: cannot be a user identifier")
            continue
        if not info["can_be_raw"]:
            # must NOT be raw-escaped: either special-cased before the table or absent from it
            ok = kw in special or kw not in tab
            rep.oblige("KWTABLE", inst, ok, sample={"rule": "KWTABLE", "keyword": kw, "can_be_raw": False,
                                                    "in_table": kw in tab, "special_cased": kw in special})
            if not ok:
                rep.add(Finding("KWTABLE", "KWTABLE|not-raw|%s" % kw,
                                "`%s` is in the escape table, so a user identifier `%s` is emitted as `r#%s`, which "
                                "rustc rejects (`%s` cannot be a raw identifier)" % (kw, kw, kw, kw),
                                file="crates/incan_core/src/lang/rust_keywords.rs", fn="RUST_KEYWORDS"))
            continue
        ok = kw in tab
        rep.oblige("KWTABLE", inst, ok, sample={"rule": "KWTABLE", "keyword": kw, "in_table": ok})
        if not ok:
            rep.add(Finding("KWTABLE", "KWTABLE|missing|%s" % kw,
                            "rustc reserves `%s` in edition 2021 but the escape table does not list it: a user "
                            "identifier `%s` is emitted verbatim and the generated file does not build" % (kw, kw),
                            file="crates/incan_core/src/lang/rust_keywords.rs", fn="RUST_KEYWORDS"))
    # lookup discipline
    isk = F.fn("incan_core::lang::rust_keywords::is_keyword")
    if rep.anchor("KWTABLE", "rust_keywords::is_keyword", isk):
        calls = [(callee_generic(t) or "").split("::")[-1] for _, t in isk.calls()]
        if any(c.startswith("binary_search") for c in calls):
            ok = tab == sorted(tab)
            rep.oblige("KWTABLE", "lookup:binary_search-needs-sorted", ok,
                       sample={"rule": "KWTABLE", "lookup": "binary_search", "table_sorted": ok})
            if not ok:
                first = next((tab[i + 1] for i in range(len(tab) - 1) if tab[i] > tab[i + 1]), None)
                rep.add(Finding("KWTABLE", "KWTABLE|lookup|unsorted-binary-search",
                                "is_keyword uses binary_search but RUST_KEYWORDS is not sorted (first out-of-order "
                                "entry: %r): some keywords are never found and are emitted unescaped" % first,
                                file=isk.file, line=isk.line, fn=isk.path))
        else:
            ok = any(c in ("contains", "any", "iter") for c in calls)
            rep.oblige("KWTABLE", "lookup:order-insensitive", ok,
                       sample={"rule": "KWTABLE", "lookup": calls})
            if not ok:
                rep.add(Finding("KWTABLE", "KWTABLE|lookup|unknown",
                                "is_keyword's lookup (%s) is not a recognised order-insensitive search" % calls,
                                file=isk.file, line=isk.line, fn=isk.path))


def _templates(f):
    from engines import fn_fmt_templates
    return fn_fmt_templates(f)


SPELL_CALLEES = ("char::methods::<impl char>::is_uppercase", "char::methods::<impl char>::is_lowercase",
                 "char::methods::<impl char>::is_ascii_uppercase", "char::methods::<impl char>::is_ascii_lowercase",
                 "char::methods::<impl char>::is_alphabetic")


def spell(F, rep):
    n = 0
    for p in sorted(F.fns):
        if not (p.startswith("incan::backend::ir::lower") or p.startswith("incan::backend::ir::emit")):
            continue
        f = F.fns[p]
        per = {}
        for bi, t in f.calls():
            cn = callee_name(t) or ""
            if not any(cn.endswith(x) for x in SPELL_CALLEES):
                continue
            k = cn.split("::")[-1]
            per[k] = per.get(k, 0) + 1
            n += 1
            inst = "%s|%s#%d" % (fn_short(p), k, per[k])
            key = (fn_short(p), k)
            if key in SPELL_REVIEWED:
                rep.oblige("SPELL", inst, True)
                rep.exempt("SPELL", inst, SPELL_REVIEWED[key])
                continue
            rep.oblige("SPELL", inst, False, sample={"rule": "SPELL", "site": inst, "file": f.file,
                                                     "line": t.get("ln")})
            rep.add(Finding("SPELL", "SPELL|%s" % inst,
                            "lowering/emission branches on the capitalisation of an identifier (%s): whether a call "
                            "`name(...)` is treated as a constructor depends on how the user spelled the name, so a "
                            "consistent renaming (Point -> point, helper -> Helper) changes what the program means"
                            % k, file=f.file, line=t.get("ln"), fn=p))
    rep.notes.append("SPELL: %d capitalisation tests found in lowering/emission" % n)
    rep.oblige("SPELL", "scan", True, sample={"rule": "SPELL", "capitalisation_tests_found": n})


def registry(F, rep):
    lp = F.one_fn("AstLowering::lower_program")
    ld = F.one_fn("lower_declaration")
    if not rep.anchor("REGISTRY", "AstLowering::lower_program", lp):
        return
    registered = set()
    for f in [x for x in (lp, ld) if x is not None]:
        rep.functions.add(f.path)
        for s in discr_switches(f):
            if s["adt"] != AST + "Declaration":
                continue
            regs = arm_regions(f, s)
            for v, blocks in regs.items():
                for b in blocks:
                    t = f.term(b)
                    if t["t"] != "call" or not (callee_generic(t) or "").endswith("::insert"):
                        continue
                    a0 = op_place(t["args"][0]) if t["args"] else None
                    if a0 is None:
                        continue
                    d = f.single_def(a0["l"])
                    if d and d[2] == "assign" and d[3]["r"] == "ref":
                        fl = place_fields(d[3]["p"])
                        if fl and fl[-1][2] == "struct_names" and f is lp:
                            registered.add(v)
                            # order: the name is registered BEFORE the declaration's own methods / trait impls are
                            # lowered (constructor calls inside them must already see it)
                            late = sorted({(callee_name(f.term(b2)) or "").split("::")[-1] for b2 in blocks
                                           if f.term(b2)["t"] == "call" and b2 != b and
                                           b in f.reachable(b2, avoid={s["block"]}) and
                                           re.search(r"lower_(class_|model_|newtype_)?methods?|lower_method|"
                                                     r"lower_trait_impl|lower_impl", (callee_name(f.term(b2)) or ""))})
                            inst = "struct_names:%s:before-methods" % v
                            rep.oblige("REGISTRY", inst, not late, sample={"rule": "REGISTRY", "declaration": v,
                                                                           "lowered_before_registration": late})
                            if late:
                                rep.add(Finding("REGISTRY", "REGISTRY|struct_names|%s|after-methods" % v,
                                                "lower_program registers %s names in struct_names only after %s has "
                                                "run: a constructor call of the %s inside its own methods is "
                                                "classified by the capitalisation heuristic alone, so a lowercase "
                                                "name is lowered as a plain function call (keyword arguments and "
                                                "defaults are lost)" % (v, ", ".join(late), v.lower()),
                                                file=lp.file, line=t.get("ln"), fn=lp.path))
    for v in ("Model", "Class", "Newtype"):
        ok = v in registered
        rep.oblige("REGISTRY", "struct_names:%s" % v, ok,
                   sample={"rule": "REGISTRY", "declaration": v, "registered_in_lower_program": ok})
        if not ok:
            rep.add(Finding("REGISTRY", "REGISTRY|struct_names|%s" % v,
                            "lower_program never registers %s declarations in struct_names: a constructor call of a "
                            "%s whose name is not Capitalised is lowered as a plain function call (keyword "
                            "arguments and defaults are lost)" % (v, v.lower()), file=lp.file, line=lp.line,
                            fn=lp.path))


def methodrecv(F, rep):
    """METHODRECV - a method name chosen by the user (`append`, `upper`, `get` ...) means the builtin list / dict /
    string operation only on a builtin receiver. Wherever the back end turns a method NAME into a MethodKind, the
    decision to treat the call as that builtin is taken after a test of the receiver's type: some read of an IrType
    discriminant dominates the test of `MethodKind::from_name`'s result."""
    n = 0
    for p in sorted(F.fns):
        if not p.startswith("incan::backend::ir::lower") and not p.startswith("incan::backend::ir::emit"):
            continue
        f = F.fns[p]
        sites = [bi for bi, t in f.calls() if (callee_name(t) or "").endswith("MethodKind::from_name")]
        if not sites:
            continue
        dom = f.dominators()
        tyreads = [bi for bi, b in enumerate(f.blocks) for st in b["st"]
                   if st["s"] == "assign" and st["rv"]["r"] == "discr" and st["rv"].get("adt", "").endswith("types::IrType")]
        for site in sites:
            n += 1
            rep.functions.add(p)
            # the test of the Option<MethodKind> derived from this call
            tests = [bi for bi, b in enumerate(f.blocks) for st in b["st"]
                     if st["s"] == "assign" and st["rv"]["r"] == "discr" and st["rv"].get("adt", "").endswith("option::Option")
                     and "MethodKind" in f.local_ty(st["rv"]["p"]["l"]) and site in dom.get(bi, set())]
            fn = fn_short(p)
            inst = "%s#%d" % (fn, sites.index(site) + 1)
            if not tests:
                rep.oblige("METHODRECV", inst, False)
                rep.add(Finding("METHODRECV", "METHODRECV|%s|no-test" % fn,
                                "the result of MethodKind::from_name is not tested in %s; the rule cannot see where "
                                "the builtin meaning is chosen" % fn, file=f.file, line=f.term(site).get("ln"), fn=p))
                continue
            s0 = min(tests)
            # reads of the receiver's type that every path to the test passes, inside the same arm as the call
            arm = [d for d in tyreads if d in dom.get(s0, set()) and
                   (d in f.reachable(site) or any(x in dom.get(site, set()) for x in [d]))]
            # a type read that already dominates the arm's dispatch is about another expression
            disp = primary_dispatch_block(F, f)
            arm = [d for d in arm if disp is None or (disp in dom.get(d, set()) and d != disp)]
            ok = bool(arm)
            rep.oblige("METHODRECV", inst, ok, sample={"rule": "METHODRECV", "fn": fn, "type_tests_before": len(arm)})
            if not ok:
                rep.add(Finding("METHODRECV", "METHODRECV|%s" % fn,
                                "%s turns a method name into a builtin MethodKind without looking at the receiver's "
                                "type: a user class with a method named `append` / `upper` / `get` ... has its calls "
                                "emitted as `.push(..)` / `.to_uppercase()` / dict access" % fn,
                                file=f.file, line=f.term(site).get("ln"), fn=p))
    rep.floor("METHODRECV", "call sites of MethodKind::from_name in lowering and emission", n, 2)


def primary_dispatch_block(F, f):
    """block of the largest enum switch in f (the expression-kind dispatch of lower_expr), if any"""
    from engines import discr_switches
    best = None
    for sw in discr_switches(f):
        if len(sw["explicit"]) >= 12 and (best is None or len(sw["explicit"]) > len(best["explicit"])):
            best = sw
    return best["block"] if best else None


def digitclass(F, rep):
    """DIGITCLASS - a field name is a tuple index exactly when ALL its characters are digits (`p.0`); a test that only
    asks whether SOME character is a digit also catches `x1`, `ipv4`, ... and turns a named field into `obj.0`."""
    n = 0
    for p in sorted(F.fns):
        if not p.startswith("incan::backend"):
            continue
        f = F.fns[p]
        for bi, t in f.calls():
            g = callee_generic(t) or ""
            last = g.split("::")[-1]
            if last not in ("any", "all") or "Iterator" not in g:
                continue
            inst_ty = t["f"].get("self", "") + t["f"].get("inst", "")
            if "Chars" not in inst_ty:
                continue
            # the predicate: a closure (or function item) that asks for digits
            digit = False
            for o in t["args"][1:]:
                pl = op_place(o)
                c = o.get("c", "") if isinstance(o, dict) else ""
                cands = []
                if pl is not None:
                    d = f.single_def(pl["l"])
                    if d and d[2] == "assign" and d[3]["r"] == "agg" and d[3].get("def") in F.fns:
                        cands.append(F.fns[d[3]["def"]])
                if any(k in c for k in ("is_ascii_digit", "is_numeric", "is_digit")):
                    digit = True
                for cf in cands:
                    if any((callee_name(t2) or "").split("::")[-1] in ("is_ascii_digit", "is_numeric", "is_digit")
                           for _, t2 in cf.calls()):
                        digit = True
            if not digit:
                continue
            n += 1
            rep.functions.add(p)
            ok = last == "all"
            inst = "%s|%s" % (fn_short(p), last)
            rep.oblige("DIGITCLASS", inst, ok)
            if not ok:
                rep.add(Finding("DIGITCLASS", "DIGITCLASS|%s" % inst,
                                "%s treats a name as a tuple index when ANY of its characters is a digit: a field "
                                "called `x1` is emitted as `.0`" % fn_short(p), file=f.file, line=t.get("ln"), fn=p))
    rep.floor("DIGITCLASS", "digit classifications of names in the backend", n, 2)


PARSERS = ("syn::parse_str", "proc_macro2::TokenStream as core::str::traits::FromStr>::from_str")


def parsedname(F, rep):
    """PARSEDNAME - Rust text parsed into tokens (`syn::parse_str`, `str::parse::<TokenStream>`) is an identifier
    construction site like `format_ident!`: a user-chosen name inside it has passed through escape_keyword."""
    n = 0
    for p in sorted(F.fns):
        if not p.startswith("incan::backend"):
            continue
        f = F.fns[p]
        per = 0
        for bi, t in f.calls():
            cn = (callee_name(t) or "") + "|" + (callee_generic(t) or "")
            inst_ty = t["f"].get("inst", "") + t["f"].get("self", "")
            is_parse = any(x in cn for x in PARSERS) or \
                ("str>::parse" in cn and any(k in inst_ty for k in ("TokenStream", "syn::")))
            if not is_parse or not t["args"]:
                continue
            n += 1
            per += 1
            pl = op_place(t["args"][0])
            if pl is None:
                continue
            flds, consts, tmpl, names, args = slice_info(F, f, pl["l"])
            user = bool([x for x in flds if NAME_FIELDS.search(x)]) or bool(args)
            escaped = any(x.endswith("escape_keyword") for x in names)
            ok = escaped or not user
            inst = "%s#%d" % (fn_short(p), per)
            rep.oblige("PARSEDNAME", inst, ok)
            if not ok:
                rep.add(Finding("PARSEDNAME", "PARSEDNAME|%s" % inst,
                                "%s parses Rust text that contains a user-chosen name (%s) which never passed "
                                "escape_keyword: for a name that is a Rust keyword the parse fails (or falls back to "
                                "something else) and the generated program is different"
                                % (fn_short(p), ", ".join(sorted(flds)[:2]) or "a function argument"),
                                file=f.file, line=t.get("ln"), fn=p))
    rep.oblige("PARSEDNAME", "sites: %d" % n, True, sample={"rule": "PARSEDNAME", "parse_sites_in_backend": n})
