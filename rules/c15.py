"""C15 — the generated Cargo project declares exactly what the code needs, pinned (DESIGN.md §4 C15).

Decided structural clauses (that the manifest is right for every program is NOT decided as behaviour):
  1 NOWILDCARD  no dependency line with a `"*"` version can be written; the unknown-crate error type is constructed
                on the unknown-crate path
  2 DEPGUARD    each fixed dependency line (serde, serde_json, axum, tokio, incan_stdlib features) is pushed under
                exactly its feature flag — no additional condition can suppress it
  3 DECLARABLE  every external crate an emitter template can reference is one the manifest template can declare
  4 FLAGSFINAL  the feature flags and the `rust::` crate list handed to the manifest are computed from ALL modules
                of the program, not only the entry module
  5 SCANNERS    each feature scanner walks every statement/expression kind that can contain the construct it looks
                for (per-walker coverage + catch-all check) and looks at every decorator, not only the first
  6 TEMPLATE    the manifest template names package, binary/lib target, edition and an own [workspace]
  7 SCANORDER   prepare_project reads the feature flags only after every scan_for_* has run
  (DEPGUARD also: a crate is recorded as already declared only on paths that pushed its dependency line)
"""
from engines import (fmt_pieces, AST, all_string_constants, arm_regions, backward_slice, bearing, blocks_dominated_by_edge,
                     body_and_closures, callee_generic, callee_name, const_str, field_is_bearing, fn_fmt_templates,
                     iter_operands_rv, op_place, place_fields, postdominators, primary_dispatch, quote_paths,
                     resolve_str, short, walker_check)
from harness import Finding

EXPLANATION = (
    "Static analysis of src/backend/project.rs, src/backend/ir/scanners.rs and the CLI's prepare_project. (1) "
    "constants: no format template or literal in generate_cargo_toml's closure produces `= \"*\"`, and "
    "UnknownCrateError has a construction site; (2) control dependence: the push of every fixed dependency line is "
    "sliced back to the ProjectGenerator fields its guards read — only needs_serde/needs_axum/needs_tokio are "
    "allowed; (3) crates named by quote! templates (reconstructed from MIR) vs crates the manifest can declare; (4) "
    "in prepare_project the scans and collect_rust_crates must be applied to every parsed module; (5) walker "
    "coverage of stmt_uses_*/expr_uses_* over the AST, plus a rule that decorator lists are traversed "
    "exhaustively; (6) required keys of the manifest template.")


def run(facts, rep, tier):
    F = facts["default"]
    rep.assumptions += ["rustc nightly MIR describes the program the stable toolchain builds",
                        "format! templates are recovered from the lowered format_args constants"]
    gc = F.one_fn("ProjectGenerator::generate_cargo_toml")
    if not rep.anchor("NOWILDCARD", "ProjectGenerator::generate_cargo_toml", gc):
        return
    rep.functions.add(gc.path)
    nowildcard(F, rep, gc)
    depguard(F, rep, gc)
    declarable(F, rep, gc)
    flagsfinal(F, rep)
    scanorder(F, rep)
    scanners(F, rep)
    template(F, rep, gc)


def manifest_strings(F, gc):
    clo = F.closure([gc.path], pred=lambda p: F.fns[p].crate == "incan")
    out = []
    for p in clo:
        f = F.fns[p]
        for _, v in all_string_constants(f):
            out.append((p, v))
        for tmpl in fn_fmt_templates(f):
            out.append((p, tmpl))
    return clo, out


def nowildcard(F, rep, gc):
    clo, strs = manifest_strings(F, gc)
    wild = [(p, v) for p, v in strs if '"*"' in v or "= '*'" in v]
    ok = not wild
    rep.oblige("NOWILDCARD", "no-star-template", ok, sample={"rule": "NOWILDCARD", "templates_scanned": len(strs),
                                                             "wildcard_templates": [v for _, v in wild][:3]})
    if not ok:
        rep.add(Finding("NOWILDCARD", "NOWILDCARD|generate_cargo_toml|star",
                        "generate_cargo_toml contains the dependency template %r: a `rust::` import of a crate "
                        "without a known-good version is silently written as `crate = \"*\"` (the module's own policy "
                        "says such crates must be refused)" % wild[0][1], file=gc.file, line=gc.line, fn=gc.path))
    # UnknownCrateError must be constructed somewhere
    built = []
    for p, f in F.fns.items():
        if f.crate != "incan" or (p.startswith("<") and " as core::" in p):
            continue
        for b in f.blocks:
            for s in b["st"]:
                if s["s"] == "assign" and s["rv"]["r"] == "agg" and s["rv"].get("adt", "").endswith(
                        "project::UnknownCrateError"):
                    built.append(p)
    has_type = any(a.endswith("project::UnknownCrateError") for a in F.adts)
    ok = bool(built) or not has_type
    rep.oblige("NOWILDCARD", "UnknownCrateError-constructed", ok,
               sample={"rule": "NOWILDCARD", "error_type_exists": has_type, "construction_sites": built[:3]})
    if not ok:
        rep.add(Finding("NOWILDCARD", "NOWILDCARD|UnknownCrateError|never-constructed",
                        "the error type UnknownCrateError exists but is never constructed: no path refuses a crate "
                        "without a known-good version", file=gc.file, line=gc.line, fn=gc.path))


FIXED_DEPS = {
    "serde": {"needs_serde"}, "serde_json": {"needs_serde"}, "axum": {"needs_axum"},
    "tokio": {"needs_axum", "needs_tokio"},
}


def const_text(f, o, depth=6):
    """Raw text of the constant an operand denotes (follows copies / borrows of single-assignment temporaries)."""
    for _ in range(depth):
        if "c" in o:
            return o["c"]
        pl = op_place(o)
        if pl is None or any(e[0] != "deref" for e in pl["p"]):
            return None
        d = f.single_def(pl["l"])
        if d is None or d[2] != "assign":
            return None
        rv = d[3]
        if rv["r"] in ("use", "cast"):
            o = rv["o"]
        elif rv["r"] in ("ref", "cfd"):
            o = {"cp": rv["p"]}
        else:
            return None
    return None


def depguard(F, rep, gc):
    pdom = postdominators(gc)
    pushes = []
    for bi, t in gc.calls():
        if not (callee_generic(t) or "").endswith("::push"):
            continue
        # what is pushed? a string built from a literal
        txt = None
        for o in t["args"][1:]:
            pl = op_place(o)
            if pl is None:
                continue
            locs, calls, _ = backward_slice(gc, [pl["l"]])
            for b in gc.blocks:
                for s in b["st"]:
                    if s["s"] == "assign" and s["d"]["l"] in locs:
                        for o2 in iter_operands_rv(s["rv"]):
                            v = const_str(o2)
                            if v and "=" in v:
                                txt = v
            for _, ct in calls:
                for o2 in ct["args"]:
                    v = resolve_str(gc, o2)
                    if v and "=" in v:
                        txt = v
                    raw = const_text(gc, o2)
                    pcs = fmt_pieces(raw) if raw else None
                    if pcs and "=" in "".join(pcs):
                        txt = "".join(pcs)       # format!("name = {{ .. }}", ..) template
            # the line may be rendered by a helper of the same file (`deps.push(stdlib_dependency_line(..))`)
            if not txt:
                for _, ct in calls:
                    cn = callee_name(ct) or ""
                    h = F.fns.get(cn)
                    if h is not None and h.file == gc.file:
                        from engines import fn_fmt_templates, all_string_constants
                        for v in fn_fmt_templates(h) + [x for _, x in all_string_constants(h)]:
                            if v and "=" in v and not v.strip().startswith("#"):
                                txt = v
        if txt:
            pushes.append((bi, t, txt))
    rep.floor("DEPGUARD", "fixed dependency lines pushed in generate_cargo_toml", len(pushes), 4)
    seen = {}
    for (bi, t, txt) in pushes:
        crate = txt.split("=")[0].strip()
        if crate not in FIXED_DEPS:
            continue
        seen[crate] = seen.get(crate, 0) + 1
        guards = []
        for sb, blk in enumerate(gc.blocks):
            tt = blk["term"]
            if tt["t"] != "switch" or bi in pdom.get(sb, set()):
                continue
            if any(bi in blocks_dominated_by_edge(gc, sb, s2) for s2 in gc.succs()[sb]):
                guards.append(sb)
        fields = set()
        for g in guards:
            pl = op_place(gc.term(g)["on"])
            if pl is None:
                continue
            locs, gcalls, _ = backward_slice(gc, [pl["l"]])
            for b in gc.blocks:
                for s in b["st"]:
                    if s["s"] == "assign" and s["d"]["l"] in locs:
                        rv = s["rv"]
                        pls = [op_place(o) for o in iter_operands_rv(rv)]
                        if "p" in rv and isinstance(rv["p"], dict):
                            pls.append(rv["p"])
                        for p2 in pls:
                            if p2:
                                fields |= {x[2] for x in place_fields(p2) if x[0].endswith("ProjectGenerator")}
            # guards computed by local closures / helper methods: what they read counts too
            for _, ct in gcalls:
                cn = callee_name(ct) or ""
                if cn in F.fns and (cn.startswith(gc.path + "::{") or "ProjectGenerator" in cn):
                    for k in F.field_reads(body_and_closures(F, cn)):
                        if k[0].endswith("ProjectGenerator"):
                            fields.add(k[2])
        allowed = FIXED_DEPS[crate]
        ok = bool(fields) and fields <= allowed
        inst = "%s#%d" % (crate, seen[crate])
        rep.oblige("DEPGUARD", inst, ok, sample={"rule": "DEPGUARD", "dependency": txt[:50], "line": t.get("ln"),
                                                 "guarded_by": sorted(fields), "allowed": sorted(allowed)})
        if not ok:
            rep.add(Finding("DEPGUARD", "DEPGUARD|%s" % inst,
                            "the `%s` dependency line is pushed under conditions reading %s (allowed: %s): a program "
                            "that needs the crate can be given a manifest without it" % (crate, sorted(fields),
                                                                                         sorted(allowed)),
                            file=gc.file, line=t.get("ln"), fn=gc.path))
    # ADDEDSYNC: `added_crates.insert("x")` records that a line for x HAS been written; the rust:: import loop skips
    # recorded crates. So every path to such an insert must pass through a push of a dependency line for x.
    n_ins = 0
    for bi, t in gc.calls():
        g = callee_generic(t) or ""
        if not (g.endswith("::insert") and "HashSet" in g):
            continue
        name = resolve_str(gc, t["args"][1]) if len(t["args"]) > 1 else None
        if name is None:
            continue
        n_ins += 1
        via = {pb for (pb, _, txt) in pushes if txt.split("=")[0].strip() == name}
        ok = bool(via) and bi not in gc.reachable(0, avoid=via)
        rep.oblige("DEPGUARD", "recorded-only-if-written:%s@%s" % (name, n_ins), ok,
                   sample={"rule": "DEPGUARD", "recorded": name, "line": t.get("ln"),
                           "every_path_pushes_its_line": ok})
        if not ok:
            rep.add(Finding("DEPGUARD", "DEPGUARD|recorded-without-line|%s" % name,
                            "generate_cargo_toml records `%s` as already declared on a path that has not pushed a "
                            "`%s = ...` line: a later `import rust::%s` is then skipped and the manifest ends up "
                            "without the crate" % (name, name, name), file=gc.file, line=t.get("ln"), fn=gc.path))
    rep.floor("DEPGUARD", "crates recorded as already declared", n_ins, 4)
    # and the converse: a crate whose line HAS been pushed is recorded on every path that continues to the rust:: import
    # loop — otherwise `import rust::serde_json` next to a serde derive writes a second `serde_json = ..` line and cargo
    # rejects the manifest (duplicate key)
    inserts = {}
    for bi, t in gc.calls():
        g = callee_generic(t) or ""
        if g.endswith("::insert") and "HashSet" in g and len(t["args"]) > 1:
            nm = resolve_str(gc, t["args"][1])
            if nm:
                inserts.setdefault(nm, set()).add(bi)
    pd = postdominators(gc)
    for (pb, _, txt) in pushes:
        crate = txt.split("=")[0].strip()
        if crate not in FIXED_DEPS and crate not in ("incan_stdlib", "incan_derive"):
            continue
        ok = any(ib in pd.get(pb, set()) or ib == pb for ib in inserts.get(crate, ()))
        rep.oblige("DEPGUARD", "written-then-recorded:%s@bb%d" % (crate, pb), ok,
                   sample={"rule": "DEPGUARD", "dependency": crate, "recorded_on_every_path_after_the_push": ok})
        if not ok:
            rep.add(Finding("DEPGUARD", "DEPGUARD|written-not-recorded|%s" % crate,
                            "generate_cargo_toml pushes a `%s = ...` line without recording the crate as declared on "
                            "every path that follows: an `import rust::%s` in the same program adds a second line for "
                            "it and cargo rejects the manifest (duplicate key)" % (crate, crate),
                            file=gc.file, line=gc.term(pb).get("ln"), fn=gc.path))
    for crate in FIXED_DEPS:
        ok = crate in seen
        rep.oblige("DEPGUARD", "present:" + crate, ok)
        if not ok:
            rep.add(Finding("DEPGUARD", "DEPGUARD|missing|%s" % crate,
                            "generate_cargo_toml no longer has a dependency line for `%s`" % crate, file=gc.file,
                            line=gc.line, fn=gc.path))


def declarable(F, rep, gc):
    _, strs = manifest_strings(F, gc)
    declarable = set()
    for _, v in strs:
        for ln in v.split("\n"):
            ln = ln.strip()
            if "=" in ln and not ln.startswith("[") and not ln.startswith("#"):
                declarable.add(ln.split("=")[0].strip().split(" ")[0])
    used = {}
    for p, f in F.fns.items():
        if not p.startswith("incan::backend"):
            continue
        for segs, ln in quote_paths(f):
            if segs[0] in ("serde", "serde_json", "tokio", "axum", "incan_stdlib", "incan_derive"):
                used.setdefault(segs[0], (f.file, ln))
    rep.floor("DECLARABLE", "external crates referenced by emitter templates", len(used), 5)
    for c, (file, ln) in sorted(used.items()):
        ok = c in declarable
        rep.oblige("DECLARABLE", c, ok, sample={"rule": "DECLARABLE", "crate": c, "first_template": "%s:%s" % (file, ln),
                                                "manifest_can_declare": ok})
        if not ok:
            rep.add(Finding("DECLARABLE", "DECLARABLE|%s" % c,
                            "emitter templates reference crate `%s` but no manifest template declares it" % c,
                            file=file, line=ln))


def flagsfinal(F, rep):
    pp = F.one_fn("cli::commands::prepare_project")
    if not rep.anchor("FLAGSFINAL", "cli::commands::prepare_project", pp):
        return
    rep.functions.add(pp.path)
    own = body_and_closures(F, pp.path)
    # a scan is applied to all modules if it is called inside a loop over the dependency modules as well
    scans = {}
    for p in own:
        f = F.fns[p]
        heads = [bi for bi, t in f.calls() if (callee_generic(t) or "").endswith("Iterator::next")]
        for bi, t in f.calls():
            n = (callee_name(t) or "").split("::")[-1]
            if n.startswith("scan_for_") or n == "collect_rust_crates":
                in_loop = any(bi in f.reachable(h) and h in f.reachable(bi) for h in heads)
                scans.setdefault(n, []).append(in_loop)
    rep.floor("FLAGSFINAL", "feature scans / crate collection calls in prepare_project", len(scans), 4)
    for n, loops in sorted(scans.items()):
        if n == "scan_for_list_helpers":
            rep.oblige("FLAGSFINAL", n, True)
            rep.exempt("FLAGSFINAL", n, "its result (IrCodegen.needs_list_helpers) is never read: it cannot influence "
                                        "the manifest")
            continue
        ok = any(loops)
        rep.oblige("FLAGSFINAL", n, ok, sample={"rule": "FLAGSFINAL", "scan": n, "calls": len(loops),
                                                "applied_in_a_loop_over_modules": ok})
        if not ok:
            rep.add(Finding("FLAGSFINAL", "FLAGSFINAL|prepare_project|%s" % n,
                            "prepare_project applies %s to the entry module only (no call inside a loop over the "
                            "parsed modules) and hands the resulting flags to the manifest generator: a dependency "
                            "module that uses the feature gets `use`/paths in its generated file but no manifest "
                            "entry" % n, file=pp.file, line=pp.line, fn=pp.path))


def scanorder(F, rep):
    """SCANORDER — prepare_project reads the feature flags (IrCodegen::needs_*) only after every scan_for_* has run:
    scanners set each other's flags as side effects (scan_for_web implies serde and tokio), so a flag read before a
    later scan is stale."""
    pp = F.one_fn("cli::commands::prepare_project")
    if pp is None:
        return
    reads = [(bi, (callee_name(t) or "").split("::")[-1]) for bi, t in pp.calls()
             if (callee_name(t) or "").split("::")[-1].startswith("needs_") and "IrCodegen" in (callee_name(t) or "")]
    scans = [(bi, (callee_name(t) or "").split("::")[-1]) for bi, t in pp.calls()
             if (callee_name(t) or "").split("::")[-1].startswith("scan_for_")]
    rep.floor("SCANORDER", "flag reads in prepare_project", len(reads), 3)
    rep.floor("SCANORDER", "scan calls in prepare_project", len(scans), 3)
    for rb, rn in reads:
        late = sorted({sn for sb, sn in scans if sb in pp.reachable(rb) and sb != rb})
        ok = not late
        rep.oblige("SCANORDER", rn, ok, sample={"rule": "SCANORDER", "flag": rn, "scans_that_can_run_after_the_read": late})
        if not ok:
            rep.add(Finding("SCANORDER", "SCANORDER|prepare_project|%s" % rn,
                            "prepare_project reads %s() while %s can still run afterwards: a flag set by that scan "
                            "(scan_for_web also turns on serde and tokio) is missing from the manifest although the "
                            "emitter, which rescans, writes the matching `use` lines" % (rn, ", ".join(late)),
                            file=pp.file, line=pp.line, fn=pp.path))


SCANNER_WALKERS = [
    # (stmt walker, expr walker, what it looks for)
    # Only walkers whose verdict reaches the manifest are armed. Not armed, with reason:
    #  - stmt/expr_uses_async: `await` can only occur inside `async def`, which detect_async_usage already detects at
    #    declaration level, so a gap in the expression walker cannot lose the tokio dependency;
    #  - stmt/expr_uses_list_helpers: its result (IrCodegen.needs_list_helpers) is never read.
    ("scanners::stmt_uses_json_stringify", "scanners::expr_uses_json_stringify", "json_stringify"),
]


SCANNER_EXEMPT = {
    "expr_uses_json_stringify:Expr::Closure.0":
        "closure parameters are bare identifiers: the parser (exprs_to_params) builds them with `default: None` and the "
        "placeholder type `_`, so nothing can be nested in them",
}


def scanners(F, rep):
    EX, ST = AST + "Expr", AST + "Statement"
    uni = [a for a in F.adts if a.startswith(AST)]
    bear = bearing(F, uni, [EX, ST])
    n = 0
    for (ssuf, esuf, what) in SCANNER_WALKERS:
        fam = (ssuf, esuf, ssuf.replace("stmt_uses", "body_uses"))
        for suf, adt in ((ssuf, ST), (esuf, EX)):
            f = F.one_fn(suf)
            if not rep.anchor("SCANNERS", suf, f):
                continue
            n += 1
            rep.functions.add(f.path)
            walker_check(F, rep, "SCANNERS", f, adt, bear, (EX, ST), family=fam, exempt=SCANNER_EXEMPT)
            # catch-all: variants with children that fall into `_ =>`
            sw = primary_dispatch(f, adt)
            if sw is None or not sw["otherwise_live"]:
                continue
            for var in F.adts[adt]["variants"]:
                v = var["name"]
                if v in sw["explicit"]:
                    continue
                kids = [fl["name"] for fl in var["fields"] if field_is_bearing(fl, bear) or
                        any(a in (EX, ST) for a in fl["adts"])]
                inst = "%s:%s::%s" % (suf.split("::")[-1], short(adt), v)
                if not kids:
                    rep.oblige("SCANNERS", inst, True)
                    continue
                rep.oblige("SCANNERS", inst, False, sample={"rule": "SCANNERS", "walker": suf, "variant": v,
                                                            "children": kids, "visited": False})
                rep.add(Finding("SCANNERS", "SCANNERS|%s|%s::%s|catch-all" % (suf.split("::")[-1], short(adt), v),
                                "the %s scanner treats %s::%s as a leaf (`_ => false`) although it has "
                                "sub-expressions (%s): a use of %s nested there is not detected, so the generated "
                                "code references crates/helpers the manifest and prelude do not provide"
                                % (suf.split("::")[-1], short(adt), v, ", ".join(kids), what),
                                file=f.file, line=sw["ln"], fn=f.path))
    rep.floor("SCANNERS", "scanner walkers checked", n, 2)
    # declaration level: which declaration kinds does the json scan descend into?
    pj = F.one_fn("scanners::program_uses_json_stringify")
    if rep.anchor("SCANNERS", "scanners::program_uses_json_stringify", pj):
        DECL = AST + "Declaration"
        sw = primary_dispatch(pj, DECL)
        if sw is None:
            # `declarations.iter().any(|d| match &d.node { .. })`: the match lives in a closure of the function
            for q in body_and_closures(F, pj.path):
                sw = primary_dispatch(F.fns[q], DECL)
                if sw is not None:
                    pj = F.fns[q]
                    break
        if rep.anchor("SCANNERS", "match over Declaration in program_uses_json_stringify", sw):
            for var in F.adts[DECL]["variants"]:
                v = var["name"]
                kids = [fl["name"] for fl in var["fields"] if field_is_bearing(fl, bear)]
                inst = "program_uses_json_stringify:Declaration::%s" % v
                if v in sw["explicit"] or not kids or not sw["otherwise_live"]:
                    rep.oblige("SCANNERS", inst, True)
                    continue
                rep.oblige("SCANNERS", inst, False, sample={"rule": "SCANNERS", "walker": pj.path, "variant": v,
                                                            "visited": False})
                rep.add(Finding("SCANNERS", "SCANNERS|program_uses_json_stringify|Declaration::%s|catch-all" % v,
                                "the json_stringify scan skips Declaration::%s (`_ => {}`), although it contains "
                                "expressions (method bodies / initialisers): a json_stringify call there does not "
                                "enable serde in the manifest" % v, file=pj.file, line=sw["ln"], fn=pj.path))
    # decorators must be traversed exhaustively (every @derive counts, not just the first)
    ds = F.one_fn("scanners::detect_serde_usage")
    if rep.anchor("SCANNERS", "scanners::detect_serde_usage", ds):
        clo = F.closure([ds.path], pred=lambda p: p.startswith("incan::backend::ir::scanners"))
        bad = []
        for p in clo:
            for bi, t in F.fns[p].calls():
                g = callee_generic(t) or ""
                last = g.split("::")[-1]
                if last in ("find", "find_map", "nth", "first", "position", "last") and \
                        "Decorator" in (t["f"].get("self", "") + t["f"].get("inst", "")):
                    bad.append((p, t))
        ok = not bad
        rep.oblige("SCANNERS", "detect_serde_usage:all-decorators", ok,
                   sample={"rule": "SCANNERS", "first_match_searches_over_decorators": len(bad)})
        for (p, t) in bad:
            rep.add(Finding("SCANNERS", "SCANNERS|detect_serde_usage|first-decorator-only",
                            "the serde scanner picks ONE decorator with %s instead of looking at all of them: with "
                            "stacked `@derive(..)` decorators a Serialize/Deserialize in a later one is missed while "
                            "the emitter (which merges all derives) still emits serde code"
                            % (callee_generic(t) or "").split("::")[-1], file=F.fns[p].file, line=t.get("ln"), fn=p))


def template(F, rep, gc):
    _, strs = manifest_strings(F, gc)
    blob = "\n".join(v for _, v in strs)
    for key in ("[package]", "name = ", "version = ", "edition = ", "[workspace]", "[dependencies]", "[[bin]]",
                "[lib]", "path = "):
        ok = key in blob
        rep.oblige("TEMPLATE", key, ok, sample={"rule": "TEMPLATE", "key": key, "present": ok})
        if not ok:
            rep.add(Finding("TEMPLATE", "TEMPLATE|%s" % key,
                            "the manifest template no longer contains `%s`" % key, file=gc.file, line=gc.line,
                            fn=gc.path))
