#!/usr/bin/env python3
"""Entry point: ./check <ID> [--tier quick|thorough] [--replay <file>]"""
import importlib
import json
import os
import sys
import time

sys.path.insert(0, os.path.dirname(os.path.abspath(__file__)))
import harness  # noqa: E402
from facts import load_cached  # noqa: E402


def main():
    args = sys.argv[1:]
    if not args:
        print("usage: check <ID> [--tier quick|thorough] [--replay file]")
        return 2
    pid = args[0].upper()
    tier = os.environ.get("VERIF_TIER", "quick")
    replay = None
    i = 1
    while i < len(args):
        if args[i] == "--tier":
            tier = args[i + 1]
            i += 2
        elif args[i] == "--replay":
            replay = args[i + 1]
            i += 2
        else:
            i += 1
    if tier not in ("quick", "thorough"):
        tier = "quick"
    t0 = time.time()
    mod = importlib.import_module(pid.lower())
    if replay:
        r = json.load(open(replay))
        print("replaying finding %s: re-running %s and looking for the same key" % (r.get("key"), pid))
    configs = getattr(mod, "CONFIGS", {"quick": ["default"], "thorough": ["default"]})[tier]
    facts = {}
    for c in configs:
        d, info = harness.ensure_facts(c)
        facts[c] = load_cached(d)
    rep = harness.Report(pid)
    mod.run(facts, rep, tier)
    sens_lost = 0
    if tier == "thorough" and not os.environ.get("VERIF_NESTED") and not os.environ.get("VERIF_NO_SENS"):
        import sensitivity
        try:
            results, sens_lost = sensitivity.run(pid)
        except Exception as e:      # the self-test is an extra: its own failure must not break the property check
            results, sens_lost = [{"seed": "-", "status": "skipped",
                                   "why": "sensitivity self-test could not run: %s" % str(e)[:160]}], 0
        extra = getattr(rep, "extra_cov", None) or {}
        extra["sensitivity_self_test"] = {
            "what": "each recorded seeded change this check detects, and each recorded behaviour-preserving "
                    "refactoring of this property's area, was applied to a scratch copy of /repo's current tree and "
                    "the same static check was re-run on the copy; 'detected' = the recorded rule fired, 'silent' = "
                    "no violation reported for a refactoring",
            "changes": results,
            "detected": sum(1 for r in results if r["status"] == "detected"),
            "benign_refactorings_silent": sum(1 for r in results if r["status"] == "silent"),
            "benign_refactorings_reported": sum(1 for r in results if r["status"] == "false-alarm"),
            "skipped": sum(1 for r in results if r["status"] == "skipped"),
            "lost": sens_lost,
        }
        rep.extra_cov = extra
        for r in results:
            if r["status"] == "lost":
                print("SENSITIVITY-LOST property=%s seed=%s expected rule %s, reported %s"
                      % (pid, r["seed"], r["expected_rule"], r.get("reported")))
            elif r["status"] == "false-alarm":
                print("SPECIFICITY-LOST property=%s change=%s (behaviour-preserving refactoring) reported %s"
                      % (pid, r["seed"], r.get("reported")))
            else:
                print("sensitivity: %s %s%s" % (r["seed"], r["status"],
                                                (" (" + r["why"] + ")") if r.get("why") else ""))
    rc = harness.finish(rep, tier, t0, level=getattr(mod, "LEVEL", "other"),
                        explanation=getattr(mod, "EXPLANATION", ""), extra_cov=getattr(rep, "extra_cov", None))
    if sens_lost and os.environ.get("VERIF_SENS_STRICT") == "1" and rc == 0:
        rc = 2
    if replay:
        key = r.get("key")
        hit = any(f.key == key for f in rep.findings)
        print("replay: finding %s %s" % (key, "REPRODUCED" if hit else "not reproduced on the current tree"))
        return 1 if hit else 0
    return rc


if __name__ == "__main__":
    sys.exit(main())
