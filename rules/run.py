#!/usr/bin/env python3
"""Entry point: ./check <ID> [--tier quick|thorough] [--replay <file>]"""
import importlib
import json
import os
import sys
import time

sys.path.insert(0, os.path.dirname(os.path.abspath(__file__)))
import harness  # noqa: E402
from facts import load_cached  # noqa: E402


def main():
    args = sys.argv[1:]
    if not args:
        print("usage: check <ID> [--tier quick|thorough] [--replay file]")
        return 2
    pid = args[0].upper()
    tier = os.environ.get("VERIF_TIER", "quick")
    replay = None
    i = 1
    while i < len(args):
        if args[i] == "--tier":
            tier = args[i + 1]
            i += 2
        elif args[i] == "--replay":
            replay = args[i + 1]
            i += 2
        else:
            i += 1
    if tier not in ("quick", "thorough"):
        tier = "quick"
    t0 = time.time()
    mod = importlib.import_module(pid.lower())
    if replay:
        r = json.load(open(replay))
        print("replaying finding %s: re-running %s and looking for the same key" % (r.get("key"), pid))
    configs = getattr(mod, "CONFIGS", {"quick": ["default"], "thorough": ["default"]})[tier]
    facts = {}
    for c in configs:
        d, info = harness.ensure_facts(c)
        facts[c] = load_cached(d)
    rep = harness.Report(pid)
    mod.run(facts, rep, tier)
    rc = harness.finish(rep, tier, t0, level=getattr(mod, "LEVEL", "other"),
                        explanation=getattr(mod, "EXPLANATION", ""), extra_cov=getattr(rep, "extra_cov", None))
    if replay:
        key = r.get("key")
        hit = any(f.key == key for f in rep.findings)
        print("replay: finding %s %s" % (key, "REPRODUCED" if hit else "not reproduced on the current tree"))
        return 1 if hit else 0
    return rc


if __name__ == "__main__":
    sys.exit(main())
