"""C14 — imports resolve the same everywhere and respect visibility (DESIGN.md §4 C14).

Agreement of resolvers on all directory layouts as behaviour is NOT decided. Decided structural clauses:
  1 ONERESOLVER  every front end that turns an import into a file (CLI module collection, LSP dependency collection)
                 goes through the one shared resolver; no other function probes the file system for import paths
  2 EXTORDER     wherever a module file is probed, `.incn` is tried first and `.incan` only on its failure edge
  3 VISFILTER    foreign declarations are collected only under is_public_decl; is_public_decl and exported_symbols
                 are exactly `visibility == Public` for every declaration kind (decision tables)
  4 VISKEY       the key under which a dependency's exports are registered equals the key the visibility check
                 looks up (`segments.join("_")`), at every registration site
  5 WORKLIST     every module work-list loop tests its visited set before reading / parsing / enqueueing
  6 REGALL       check_with_imports records the export list of every dependency module, also an empty one
  7 MISSINGMOD   an import that resolves to no file is reported (known finding: it is skipped silently)
"""
from engines import (AST, all_string_constants, backward_slice, blocks_dominated_by_edge, body_and_closures,
                     callee_generic, callee_name, const_str, derived_locals, iter_operands_rv, op_place, place_fields,
                     resolve_str)
from harness import Finding
from mireval import Evaluator, OutOfFragment, UNKNOWN, enum

EXPLANATION = (
    "Static analysis of the three import resolvers and the visibility machinery. (1) call graph: the CLI's "
    "collect_modules and the LSP's collect_dependency_modules must both reach frontend::module::resolve_import_path, "
    "and functions outside it that combine import-path segments with Path::exists / set_extension are reported "
    "(today the CLI has its own inline resolver with different rules); (2) dominance: the `.incan` probe sits on the "
    "failure edge of the `.incn` probe in every resolver; (3) dominance + exhaustive decision tables (constant "
    "propagation over MIR) of is_public_decl and exported_symbols over declaration kind x {pub, private}; (4) "
    "provenance of the dependency-exports key at the lookup and at each registration site; (5) dominance of the "
    "visited-set test over read/parse/enqueue in each work-list loop. Which file an import denotes for every "
    "directory layout is not decided.")

SHARED = "incan::frontend::module::resolve_import_path"
DECL = AST + "Declaration"
VIS = AST + "Visibility"


def run(facts, rep, tier):
    F = facts["default"]
    rep.assumptions += ["rustc nightly MIR describes the program the stable toolchain builds"]
    oneresolver(F, rep)
    extorder(F, rep)
    visfilter(F, rep)
    viskey(F, rep)
    worklist(F, rep)
    missingmod(F, rep)


def probes_fs_for_imports(F, f):
    """f builds a path from import segments and asks the file system about it."""
    names = [(callee_name(t) or "") for _, t in f.calls()]
    exists = any(n.endswith("Path::exists") or n.endswith("Path::is_file") for n in names)
    ext = any(n.endswith("PathBuf::set_extension") or n.endswith("Path::with_extension") for n in names)
    reads_segments = False
    for p in body_and_closures(F, f.path) if hasattr(F, "fns") else [f.path]:
        r = F.field_reads([p])
        if any(k[0].endswith("ast::ImportPath") and k[2] == "segments" for k in r):
            reads_segments = True
    return exists and ext and reads_segments


def front_end_closure(F):
    """Functions reachable from the command-line commands or the language-server handlers."""
    entries = [p for p in F.fns if (p.startswith("incan::cli::commands::") and "{" not in p) or
               ("incan::lsp::backend::IncanLanguageServer" in p)]
    return F.closure(entries, pred=lambda p: F.fns[p].crate == "incan")


def oneresolver(F, rep):
    shared = F.fn(SHARED)
    if not rep.anchor("ONERESOLVER", SHARED, shared):
        return
    rep.functions.add(SHARED)
    fe = front_end_closure(F)
    rep.floor("ONERESOLVER", "functions reachable from the CLI commands and LSP handlers", len(fe), 800)
    resolvers = []
    for p, f in sorted(F.fns.items()):
        if f.crate != "incan" or "{closure" in p:
            continue
        if probes_fs_for_imports(F, f):
            if p not in fe:
                rep.exempt("ONERESOLVER", "resolver:" + p.split("::")[-1],
                           "library-level API not reachable from any CLI command or LSP handler (checked on the "
                           "call graph): it cannot make the two front ends disagree")
                continue
            resolvers.append(f)
    rep.floor("ONERESOLVER", "functions probing the file system for import paths", len(resolvers), 1)
    for f in resolvers:
        short = f.path.split("::")[-1]
        ok = f.path == SHARED
        rep.oblige("ONERESOLVER", "resolver:" + short, ok, sample={"rule": "ONERESOLVER", "fn": f.path,
                                                                   "is_the_shared_resolver": ok})
        if not ok:
            rep.add(Finding("ONERESOLVER", "ONERESOLVER|%s" % short,
                            "%s resolves import paths to files by itself (segments + set_extension + exists) instead "
                            "of calling %s: the front ends can disagree on which file an import denotes (e.g. "
                            "`import a::b`, `mod.incn` directories, both extensions present)" % (f.path, SHARED),
                            file=f.file, line=f.line, fn=f.path))
    for suffix in ("cli::commands::collect_modules", "IncanLanguageServer::collect_dependency_modules"):
        cands = F.find_fns(suffix=suffix)
        cands = [c for c in cands if "{" not in c.path.split("::")[-1]]
        if not rep.anchor("ONERESOLVER", suffix, cands):
            continue
        f = cands[0]
        clo = F.closure([f.path], pred=lambda p: F.fns[p].crate == "incan")
        ok = SHARED in clo
        rep.oblige("ONERESOLVER", "uses-shared:" + suffix.split("::")[-1], ok,
                   sample={"rule": "ONERESOLVER", "front_end": suffix, "reaches_shared_resolver": ok})
        if not ok:
            rep.add(Finding("ONERESOLVER", "ONERESOLVER|%s|not-shared" % suffix.split("::")[-1],
                            "%s never reaches the shared resolver %s" % (suffix, SHARED), file=f.file, line=f.line,
                            fn=f.path))


def extorder(F, rep):
    n = 0
    fe = front_end_closure(F)
    for p, f in sorted(F.fns.items()):
        if f.crate != "incan" or "{closure" in p or f.file.endswith("tests.rs") or p not in fe:
            continue
        sets = []
        for bi, t in f.calls():
            if (callee_name(t) or "").endswith("PathBuf::set_extension") or \
                    (callee_name(t) or "").endswith("Path::with_extension"):
                ext = None
                for o in t["args"][1:]:
                    ext = resolve_str(f, o) or ext
                sets.append((bi, ext))
        exts = [e for _, e in sets]
        if "incn" not in exts and "incan" not in exts:
            consts = {v for _, v in all_string_constants(f)}
            if sets and {"incn", "incan"} <= consts:
                # the extension is a run-time value taken from a list: first-match order is no longer structural
                n += 1
                short = p.split("::")[-1]
                # accepted only if the loop leaves on the first hit: the exists() true edge must not return to the
                # probe (no path from the success edge back to set_extension)
                from c09 import bool_edges
                ok = False
                for bi, t in f.calls():
                    if (callee_name(t) or "").endswith("Path::exists") and not t["d"]["p"]:
                        for (a, b) in bool_edges(f, t["d"]["l"], True):
                            if not any(sb in f.reachable(b) for sb, _ in sets):
                                ok = True
                rep.oblige("EXTORDER", short, ok, sample={"rule": "EXTORDER", "fn": p, "holds": ok,
                                                          "detail": "extensions iterated from a list"})
                if not ok:
                    rep.add(Finding("EXTORDER", "EXTORDER|%s" % short,
                                    "%s iterates over the candidate extensions and keeps probing after a hit: with "
                                    "both `m.incn` and `m.incan` present the LAST existing file wins here while the "
                                    "shared resolver returns the first (`.incn`) — the front ends compile different "
                                    "modules" % short, file=f.file, line=f.line, fn=p))
            continue
        n += 1
        rep.functions.add(p)
        short = p.split("::")[-1]
        ok = "incn" in exts and "incan" in exts
        why = "both extensions are probed"
        if ok:
            b_incn = min(b for b, e in sets if e == "incn")
            b_incan = min(b for b, e in sets if e == "incan")
            # the exists() following the incn probe
            ex = [bi for bi, t in f.calls() if (callee_name(t) or "").endswith("Path::exists")
                  and b_incn in f.dominators().get(bi, set()) and bi < b_incan]
            ok = False
            why = "no exists() test between the .incn and the .incan probe"
            for e in ex:
                t = f.term(e)
                if t["d"]["p"]:
                    continue
                from c09 import bool_edges
                dom = set()
                for (a, b) in bool_edges(f, t["d"]["l"], False):
                    dom |= blocks_dominated_by_edge(f, a, b)
                if b_incan in dom:
                    ok = True
                    why = ".incan probe is dominated by the failure edge of the .incn probe"
        else:
            why = "extensions probed: %s" % exts
        rep.oblige("EXTORDER", short, ok, sample={"rule": "EXTORDER", "fn": p, "holds": ok, "detail": why})
        if not ok:
            rep.add(Finding("EXTORDER", "EXTORDER|%s" % short,
                            "%s does not try `.incn` first and `.incan` only when that fails (%s): with both files "
                            "present the front ends pick different modules" % (short, why), file=f.file, line=f.line,
                            fn=p))
    rep.floor("EXTORDER", "functions probing module file extensions", n, 2)
    # files before directories: once `<m>/mod.*` is probed no `<m>.<ext>` probe may follow. The CLI's own resolver
    # only knows `<m>.incn` / `<m>.incan`, so a directory module that can win over an existing `<m>.incan` makes the
    # front ends that share this function pick a different file than the CLI for the same import.
    sh = F.fns.get(SHARED)
    if rep.anchor("EXTORDER", SHARED, sh):
        filep = [bi for bi, t in sh.calls() if (callee_name(t) or "").endswith("PathBuf::set_extension") or
                 (callee_name(t) or "").endswith("Path::with_extension")]
        dirp = []
        for bi, t in sh.calls():
            if not (callee_name(t) or callee_generic(t) or "").split("::<")[0].endswith("Path::join"):
                continue
            _, calls, _ = backward_slice(sh, [op_place(o)["l"] for o in t["args"][1:] if op_place(o) is not None])
            consts = [resolve_str(sh, o) for o in t["args"][1:]]
            txt = [c for c in consts if c] + [v for b2, v in all_string_constants(sh)
                                              if any(b2 == cb for cb, _ in calls)]
            from engines import fn_fmt_templates
            if any(x.startswith("mod.") for x in txt) or \
                    (not any(consts) and any(x.startswith("mod.") for x in fn_fmt_templates(sh))):
                dirp.append(bi)
        if rep.anchor("EXTORDER", "file and directory probes in the shared resolver", filep and dirp):
            back = [d for d in dirp if any(fp in sh.reachable(d) - {d} for fp in filep)]
            ok = not back
            rep.oblige("EXTORDER", "files-before-directories", ok,
                       sample={"rule": "EXTORDER", "file_probes": len(filep), "directory_probes": len(dirp)})
            if not ok:
                rep.add(Finding("EXTORDER", "EXTORDER|resolve_import_path|files-before-directories",
                                "a `<m>.<ext>` probe is reachable after a `<m>/mod.*` probe: a directory module can "
                                "win over an existing `<m>.incan`, which the CLI's own resolver (file probes only) "
                                "still picks - the front ends compile different files for one import",
                                file=sh.file, line=sh.term(back[0]).get("ln"), fn=sh.path))


def decl_value(F, kind, vis, populated=False):
    """A Spanned<Declaration> value with the given kind and visibility (other fields unknown). With populated=True
    every collection of children (variants, fields, methods ...) holds one element, so that loops over them run."""
    structs = {"Const": "ConstDecl", "Model": "ModelDecl", "Class": "ClassDecl", "Enum": "EnumDecl",
               "Newtype": "NewtypeDecl", "Trait": "TraitDecl", "Function": "FunctionDecl", "Import": "ImportDecl"}
    if kind == "Docstring":
        node = enum(DECL, "Docstring", [("str", '"doc"')])
    else:
        sname = AST + structs[kind]
        fields = {}
        for v in F.adts[sname]["variants"]:
            for fl in v["fields"]:
                if fl["name"] == "visibility":
                    fields["visibility"] = enum(VIS, vis)
                elif fl["ty"].startswith("alloc::vec::Vec<"):
                    child = ("struct", AST + "Spanned", {"node": UNKNOWN, "span": UNKNOWN})
                    fields[fl["name"]] = ("vec", (child,) if populated else ())
                else:
                    fields[fl["name"]] = UNKNOWN
        node = enum(DECL, kind, [("struct", sname, fields)])
    return ("struct", AST + "Spanned", {"node": node, "span": UNKNOWN})


def filtered_by_predicate(F, f, pred_suffix):
    """The only loop of `f` runs over `iter.filter(P)` where P is the predicate itself or a closure that returns
    exactly its result: every element the loop body sees satisfied the predicate."""
    from engines import derived_locals
    filters = []
    for bi, t in f.calls():
        if not (callee_generic(t) or "").endswith("Iterator::filter") or len(t["args"]) < 2 or t["d"]["p"]:
            continue
        a = t["args"][1]
        good = False
        if "c" in a and pred_suffix in a.get("c", ""):
            good = True                      # the function item itself
        pl = op_place(a)
        if pl is not None and not pl["p"]:
            d = f.single_def(pl["l"])
            if d and d[2] == "assign" and d[3]["r"] == "agg" and d[3].get("ak") == "closure":
                c = F.fns.get(d[3]["def"])
                if c is not None:
                    calls = [(b2, t2) for b2, t2 in c.calls()]
                    preds = [(b2, t2) for b2, t2 in calls if (callee_name(t2) or "").endswith(pred_suffix)]
                    # the closure returns the predicate's result: the call writes _0 (or a temp copied into _0) and
                    # no branch decides the result
                    if len(preds) == 1 and not any(blk["term"]["t"] == "switch" for blk in c.blocks):
                        dl = preds[0][1]["d"]["l"]
                        good = dl == 0 or 0 in derived_locals(c, dl)
            elif d and d[2] == "assign" and d[3]["r"] == "use" and pred_suffix in d[3]["o"].get("c", ""):
                good = True
        if good:
            filters.append(t["d"]["l"])
    if not filters:
        return False
    ok_locals = set()
    for fl in filters:
        ok_locals |= derived_locals(f, fl)
    # into_iter(filtered) results are filtered too
    changed = True
    while changed:
        changed = False
        for bi, t in f.calls():
            g = callee_generic(t) or ""
            if (g.endswith("IntoIterator::into_iter") or g.endswith("Iterator::by_ref")) and t["args"] and \
                    not t["d"]["p"] and t["d"]["l"] not in ok_locals:
                pl = op_place(t["args"][0])
                if pl is not None and pl["l"] in ok_locals:
                    ok_locals |= derived_locals(f, t["d"]["l"])
                    changed = True
    nexts = [t for bi, t in f.calls() if (callee_generic(t) or "").endswith("Iterator::next")]
    return bool(nexts) and all(op_place(t["args"][0]) is not None and op_place(t["args"][0])["l"] in ok_locals
                               for t in nexts)


def visfilter(F, rep):
    im = F.one_fn("TypeChecker::import_module")
    if rep.anchor("VISFILTER", "TypeChecker::import_module", im):
        rep.functions.add(im.path)
        col = [bi for bi, t in im.calls() if (callee_name(t) or "").endswith("::collect_declaration")]
        pub = [(bi, t) for bi, t in im.calls() if (callee_name(t) or "").endswith("is_public_decl")]
        ok = bool(col) and bool(pub)
        if ok:
            from c09 import bool_edges
            dom = set()
            for bi, t in pub:
                if not t["d"]["p"]:
                    for (a, b) in bool_edges(im, t["d"]["l"], True):
                        dom |= blocks_dominated_by_edge(im, a, b)
            ok = all(c in dom for c in col)
        if bool(col) and not ok:
            ok = filtered_by_predicate(F, im, "is_public_decl")
        rep.oblige("VISFILTER", "import_module:collect-under-is_public", ok,
                   sample={"rule": "VISFILTER", "collect_sites": len(col), "dominated_by_is_public_decl": ok})
        if not ok:
            rep.add(Finding("VISFILTER", "VISFILTER|import_module",
                            "import_module collects declarations of a foreign module on a path not dominated by "
                            "is_public_decl(decl) == true: private items of a dependency become usable",
                            file=im.file, line=im.line, fn=im.path))
    kinds = [v["name"] for v in F.adts[DECL]["variants"]]
    ip = F.one_fn("typechecker::is_public_decl")
    if rep.anchor("VISFILTER", "is_public_decl", ip):
        rep.functions.add(ip.path)
        n = 0
        for k in kinds:
            for vis in ("Public", "Private"):
                n += 1
                want = (vis == "Public") and k not in ("Import", "Docstring")
                try:
                    res = Evaluator(F).run(ip, [("ref", {0: decl_value(F, k, vis)}, {"l": 0, "p": []})])
                    got = res[1] if res[0] == "bool" else "undecided"
                except OutOfFragment as e:
                    got = "out-of-fragment"
                ok = got == want
                rep.oblige("VISFILTER", "is_public_decl:%s,%s" % (k, vis), ok,
                           sample={"rule": "VISFILTER", "table": "is_public_decl", "kind": k, "visibility": vis,
                                   "result": got, "expected": want})
                if not ok:
                    rep.add(Finding("VISFILTER", "VISFILTER|is_public_decl|%s,%s" % (k, vis),
                                    "is_public_decl(%s with visibility %s) = %s, expected %s" % (k, vis, got, want),
                                    file=ip.file, line=ip.line, fn=ip.path))
        rep.exhaustive_tables.append({"table": "is_public_decl", "cells": n})
    ex = F.one_fn("frontend::module::exported_symbols")
    if rep.anchor("VISFILTER", "exported_symbols", ex):
        rep.functions.add(ex.path)
        n = 0
        for k in kinds:
            for vis in ("Public", "Private"):
                n += 1
                pushes = []

                def hook(name, gen, args, t, ev, pushes=pushes):
                    last = gen.split("::")[-1]
                    if last == "push":
                        pushes.append(1)
                        return ("tuple", ())
                    if last in ("into_iter", "iter"):
                        a = ev.deref_all(args[0])
                        if a[0] == "vec":
                            return ("iter", list(a[1]))
                    if last == "next":
                        a = ev.deref_all(args[0])
                        if a[0] == "iter":
                            if a[1]:
                                return enum("core::option::Option", "Some", [a[1].pop(0)])
                            return enum("core::option::Option", "None")
                    if last == "new" and "Vec" in gen:
                        return ("vec", ())
                    return None
                prog = ("struct", AST + "Program", {"declarations": ("vec", (decl_value(F, k, vis, populated=True),))})
                try:
                    Evaluator(F, call_hook=hook).run(ex, [("ref", {0: prog}, {"l": 0, "p": []})])
                    got = len(pushes) > 0
                except OutOfFragment as e:
                    got = "out-of-fragment: %s" % str(e)[:60]
                want = (vis == "Public") and k not in ("Import", "Docstring")
                ok = got == want
                rep.oblige("VISFILTER", "exported_symbols:%s,%s" % (k, vis), ok,
                           sample={"rule": "VISFILTER", "table": "exported_symbols", "kind": k, "visibility": vis,
                                   "exports_something": got, "expected": want})
                if not ok:
                    rep.add(Finding("VISFILTER", "VISFILTER|exported_symbols|%s,%s" % (k, vis),
                                    "exported_symbols on a module with one %s declaration of visibility %s exports: "
                                    "%s, expected %s" % (k, vis, got, want), file=ex.file, line=ex.line, fn=ex.path))
        rep.exhaustive_tables.append({"table": "exported_symbols", "cells": n})


def key_provenance(F, f, local):
    """How a dependency-exports key string was built."""
    locs, calls, _ = backward_slice(f, [local])
    names = [(callee_generic(t) or "").split("::")[-1] for _, t in calls]
    full = [(callee_name(t) or "") for _, t in calls]
    joins_underscore = False
    for _, t in calls:
        if (callee_generic(t) or "").split("::")[-1] == "join":
            for o in t["args"]:
                if resolve_str(f, o) == "_":
                    joins_underscore = True
    flds = set()
    for b in f.blocks:
        for s in b["st"]:
            if s["s"] == "assign" and s["d"]["l"] in locs:
                rv = s["rv"]
                pls = [op_place(o) for o in iter_operands_rv(rv)]
                if "p" in rv and isinstance(rv["p"], dict):
                    pls.append(rv["p"])
                for pl in pls:
                    if pl:
                        flds |= {x[2] for x in place_fields(pl)}
    return {"join_underscore": joins_underscore, "segments": "segments" in flds,
            "file_stem": "file_stem" in names, "to_rust_path": any(n.endswith("to_rust_path") for n in full),
            "calls": sorted(set(names))[:8]}


def viskey(F, rep):
    v = F.one_fn("validate_import_visibility")
    if rep.anchor("VISKEY", "validate_import_visibility", v):
        rep.functions.add(v.path)
        gets = [(bi, t) for bi, t in v.calls() if (callee_generic(t) or "").endswith("::get") and
                "ExportedSymbol" in t["f"].get("inst", "")]
        if rep.anchor("VISKEY", "dependency_exports.get(key) in validate_import_visibility", gets):
            bi, t = gets[0]
            pl = op_place(t["args"][1])
            prov = key_provenance(F, v, pl["l"])
            ok = prov["join_underscore"] and prov["segments"] and not prov["to_rust_path"]
            rep.oblige("VISKEY", "lookup-key", ok, sample=dict(prov, rule="VISKEY", site="lookup"))
            if not ok:
                rep.add(Finding("VISKEY", "VISKEY|validate_import_visibility|lookup",
                                "the visibility check looks dependency exports up under a key that is not "
                                "`module.segments.join(\"_\")` (%s): for some import spellings the lookup misses, the "
                                "check returns early and a private item is accepted" % prov["calls"],
                                file=v.file, line=t.get("ln"), fn=v.path))
    regall(F, rep)
    # registration sites: callers of check_with_imports build (name, ast) pairs
    sites = 0
    for p, f in sorted(F.fns.items()):
        if f.crate != "incan" or f.file.endswith("tests.rs"):
            continue
        if not any((callee_name(t) or "").endswith("TypeChecker::check_with_imports") for _, t in f.calls()):
            continue
        # where do the names in this front end come from?
        producers = []
        for q in F.closure([p.split("::{")[0]] if "::{" in p else [p], pred=lambda x: F.fns[x].crate == "incan" and
                           (x.startswith("incan::cli") or x.startswith("incan::lsp"))):
            g = F.fns[q]
            for b in g.blocks:
                for s in b["st"]:
                    if s["s"] == "assign" and s["rv"]["r"] == "agg" and s["rv"].get("adt", "").endswith(
                            "ParsedModule"):
                        producers.append((g, s))
            for bi, t in g.calls():
                if (callee_generic(t) or "").endswith("::push") and "(alloc::string::String, incan_syntax::ast::Program)" \
                        in t["f"].get("inst", ""):
                    producers.append((g, t))
        if p.startswith("incan::backend"):
            continue
        sites += 1
        short = p.split("::")[-1] if "{closure" not in p else p.split("::")[-2]
        ok = None
        detail = {}
        for g, s in producers:
            if "rv" in s:
                names = s["rv"]["fields"]
                if "name" in names:
                    o = s["rv"]["ops"][names.index("name")]
                    pl = op_place(o)
                    if pl:
                        detail = key_provenance(F, g, pl["l"])
            else:
                a = op_place(s["args"][1])
                if a:
                    d = g.single_def(a["l"])
                    if d and d[2] == "assign" and d[3]["r"] == "agg" and d[3].get("ak") == "tuple":
                        pl = op_place(d[3]["ops"][0])
                        if pl:
                            detail = key_provenance(F, g, pl["l"])
            if detail:
                ok = detail["join_underscore"] and not detail["file_stem"]
                break
        if ok is None:
            rep.oblige("VISKEY", "registration:" + short, True, nontrivial=False)
            continue
        rep.oblige("VISKEY", "registration:" + short, ok, sample=dict(detail, rule="VISKEY", site=p))
        if not ok:
            rep.add(Finding("VISKEY", "VISKEY|registration|%s" % short,
                            "%s registers dependency modules under a name that is not `segments.join(\"_\")` (%s): "
                            "for nested modules (`from db.models import x`) the visibility check looks up "
                            "`db_models`, finds nothing and silently skips the check — this front end accepts imports "
                            "of private items that the other one rejects" % (short, "file stem" if
                                                                             detail.get("file_stem") else
                                                                             detail.get("calls")),
                            file=f.file, line=f.line, fn=p))
    rep.floor("VISKEY", "front ends calling check_with_imports", sites, 3)


SELECTIVE_ADAPTORS = ("Iterator::filter", "Iterator::filter_map", "Iterator::take_while", "Iterator::skip_while",
                      "Iterator::take", "Iterator::skip", "Iterator::step_by", "Iterator::find", "Iterator::find_map",
                      "Iterator::map_while", "Iterator::flat_map", "Iterator::flatten")


def regall(F, rep):
    """REGALL — check_with_imports records the export list of EVERY dependency module, including an empty one: the
    visibility check treats a module without a record as unknown and skips itself, so a module that exports nothing
    would have all its private items importable."""
    from engines import postdominators, blocks_dominated_by_edge
    f = F.one_fn("TypeChecker::check_with_imports")
    if not rep.anchor("REGALL", "TypeChecker::check_with_imports", f):
        return
    ins = [(bi, t) for bi, t in f.calls() if (callee_generic(t) or "").endswith("::insert") and
           "ExportedSymbol" in t["f"].get("inst", "")]
    bulk = [(bi, t) for bi, t in f.calls() if ((callee_generic(t) or "").endswith("Iterator::collect") or
                                              (callee_generic(t) or "").endswith("Extend::extend")) and
            "ExportedSymbol" in t["f"].get("inst", "")]
    if not rep.anchor("REGALL", "registration of dependency exports in check_with_imports", ins or bulk):
        return
    ok, why = True, ""
    if ins:
        pdom = postdominators(f)
        for bi, t in ins:
            for sb, blk in enumerate(f.blocks):
                tt = blk["term"]
                if tt["t"] != "switch" or bi in pdom.get(sb, set()):
                    continue
                if not any(bi in blocks_dominated_by_edge(f, sb, s2) for s2 in f.succs()[sb]):
                    continue
                # the only admissible guard is the loop condition: a switch on the discriminant of Iterator::next()
                pl = op_place(tt["on"])
                d = f.single_def(pl["l"]) if pl is not None and not pl["p"] else None
                loop_cond = False
                if d and d[2] == "assign" and d[3]["r"] == "use" and "c" in d[3]["o"]:
                    continue        # branch on a compile-time constant (macro expansion): decided statically
                if d and d[2] == "assign" and d[3]["r"] == "discr":
                    src = f.single_def(d[3]["p"]["l"])
                    loop_cond = bool(src and src[2] == "call" and (callee_generic(src[3]) or "").endswith("Iterator::next"))
                if not loop_cond:
                    ok = False
                    why = "the insert is conditional (guard at line %s)" % tt.get("ln")
    else:
        sel = sorted({(callee_generic(t) or "").split("::")[-1] for _, t in f.calls()
                      if any((callee_generic(t) or "").endswith(a) for a in SELECTIVE_ADAPTORS)})
        if sel:
            ok = False
            why = "the records are collected through a selective iterator adaptor (%s)" % ", ".join(sel)
    rep.oblige("REGALL", "check_with_imports", ok, sample={"rule": "REGALL", "direct_inserts": len(ins),
                                                           "bulk_collects": len(bulk), "holds": ok, "why": why})
    if not ok:
        rep.add(Finding("REGALL", "REGALL|check_with_imports",
                        "check_with_imports does not record the exports of every dependency: %s. A module without a "
                        "record is treated as unknown by validate_import_visibility, which then skips the check — "
                        "private items of such a module become importable" % why, file=f.file, line=f.line, fn=f.path))


def worklist(F, rep):
    loops = [("cli::commands::collect_modules", "read_source"),
             ("IncanLanguageServer::collect_dependency_modules", "lexer::lex")]
    for suffix, work in loops:
        cands = [F.fns[p] for p in F.fns if (p.endswith(suffix) or p.endswith(suffix + "::{closure#0}"))]
        f = None
        for c in cands:
            if any((callee_name(t) or "").endswith(work) for _, t in c.calls()):
                f = c
        if not rep.anchor("WORKLIST", suffix, f):
            continue
        rep.functions.add(f.path)
        works = [bi for bi, t in f.calls() if (callee_name(t) or "").endswith(work)]
        tests = [(bi, t) for bi, t in f.calls() if (callee_generic(t) or "").split("::")[-1] in ("contains", "insert")
                 and "HashSet" in t["f"].get("self", "")]
        ok = False
        from c09 import bool_edges
        for bi, t in tests:
            if t["d"]["p"]:
                continue
            last = (callee_generic(t) or "").split("::")[-1]
            # contains -> proceed on false; insert -> proceed on true (newly inserted)
            dom = set()
            for (a, b) in bool_edges(f, t["d"]["l"], last == "insert"):
                dom |= blocks_dominated_by_edge(f, a, b)
            if works and all(w in dom for w in works):
                ok = True
        short = suffix.split("::")[-1]
        # the key that is recorded is the key that is tested: an entry stored under another spelling of the path is
        # never found again, and an import cycle is walked forever
        PASS = ("clone", "to_string", "to_owned", "from", "deref", "as_str", "borrow", "as_ref", "into")

        def key_root(o, depth=12):
            """-> (origin, transforms): where the key value comes from (a local, or the call site that produced
            it) and the crate-local functions it went through on the way"""
            pl = op_place(o)
            transforms = []
            while pl is not None and depth > 0:
                depth -= 1
                d = f.single_def(pl["l"])
                if d is None:
                    return (("local", pl["l"]), tuple(transforms))
                if d[2] == "call":
                    g = (callee_generic(d[3]) or callee_name(d[3]) or "")
                    cn = callee_name(d[3]) or ""
                    if g.split("::")[-1].split("<")[0] in PASS and d[3]["args"]:
                        pl = op_place(d[3]["args"][0])
                        continue
                    if cn in F.fns and d[3]["args"]:
                        transforms.append(cn.split("::")[-1])
                        pl = op_place(d[3]["args"][0])
                        continue
                    return (("site", d[0], g.split("::<")[0]), tuple(transforms))
                rv = d[3]
                if rv["r"] in ("ref", "cfd") and isinstance(rv.get("p"), dict):
                    pl = rv["p"]
                elif rv["r"] in ("use", "cast"):
                    pl = op_place(rv["o"])
                else:
                    return (("local", pl["l"]), tuple(transforms))
            return None
        ins_roots = {key_root(t["args"][1]) for _, t in tests
                     if (callee_generic(t) or "").split("::")[-1] == "insert" and len(t["args"]) > 1}
        con_roots = {key_root(t["args"][1]) for _, t in tests
                     if (callee_generic(t) or "").split("::")[-1] == "contains" and len(t["args"]) > 1}
        # a violation: one value used as a key under two different spellings (plain on one side, through a
        # transforming function on the other)
        allk = [r for r in ins_roots | con_roots if r]
        bad_keys = sorted({(a[1] or b[1]) for a in ins_roots if a for b in allk
                           if a[0] == b[0] and a[1] != b[1]})
        same = not bad_keys
        rep.oblige("WORKLIST", short + ":same-key", same,
                   sample={"rule": "WORKLIST", "loop": suffix, "recorded": sorted(map(str, ins_roots)),
                           "tested": sorted(map(str, con_roots))})
        if not same:
            rep.add(Finding("WORKLIST", "WORKLIST|%s|same-key" % short,
                            "in %s the visited set is written with a different key (%s) than the one it is tested "
                            "with: a module reached again under the tested spelling is not recognised, so an import "
                            "cycle makes the work list grow forever"
                            % (short, ", ".join("/".join(k) for k in bad_keys)),
                            file=f.file, line=f.line, fn=f.path))
        rep.oblige("WORKLIST", short, ok, sample={"rule": "WORKLIST", "loop": suffix, "work": work,
                                                  "visited_test_dominates_work": ok})
        if not ok:
            rep.add(Finding("WORKLIST", "WORKLIST|%s" % short,
                            "in %s reading/parsing a module is not dominated by the visited-set test: an import cycle "
                            "makes the work list grow forever" % short, file=f.file, line=f.line, fn=f.path))


def missingmod(F, rep):
    """An import that resolves to no file (and is not std / rust / python) must end in a diagnostic."""
    from engines import discr_switches
    f = F.one_fn("cli::commands::collect_modules")
    if not rep.anchor("MISSINGMOD", "cli::commands::collect_modules", f):
        return
    cands = []
    for s in discr_switches(f):
        if not s["adt"].endswith("option::Option"):
            continue
        ty = f.local_ty(s["place"]["l"])
        if "PathBuf" in ty and "Option" in ty and not s["place"]["p"]:
            cands.append(s)
    if not rep.anchor("MISSINGMOD", "test of the resolved path (Option<PathBuf>) in collect_modules", cands):
        return
    heads = [bi for bi, t in f.calls() if (callee_generic(t) or "").endswith("Iterator::next")]
    ok_any = False
    for s in cands:
        none_t = s["explicit"].get("None", s["otherwise"] if "Some" in s["explicit"] else None)
        if none_t is None:
            continue
        region = f.reachable(none_t, avoid=set(heads))
        errs = any(st["s"] == "assign" and st["rv"]["r"] == "agg" and
                   (st["rv"].get("variant") == "Err" or st["rv"].get("adt", "").endswith("CliError"))
                   for b in region for st in f.stmts(b)) or \
            any(f.term(b)["t"] == "call" and ((callee_name(f.term(b)) or "").endswith("CliError::failure") or
                                               (callee_generic(f.term(b)) or "").endswith("::push") and
                                               "CompileError" in f.term(b)["f"].get("inst", ""))
                for b in region)
        if errs:
            ok_any = True
    rep.oblige("MISSINGMOD", "collect_modules:unresolved-import", ok_any,
               sample={"rule": "MISSINGMOD", "unresolved_import_reports_error": ok_any})
    if not ok_any:
        rep.add(Finding("MISSINGMOD", "MISSINGMOD|collect_modules",
                        "when an import resolves to no file, collect_modules silently skips it (no error on the None "
                        "edge of the resolved path): `from nosuch import f` passes `incan --check` and the missing "
                        "module only surfaces as a rustc error", file=f.file, line=cands[0]["ln"], fn=f.path))
